"""C28 - equivalence-relation storage is the closure of inserted pairs.
S: TLC checks spec/EqRelImpl.tla (union-find forest with path halving and the rank rule of UnionFind.h, sparse<->dense maps,
   statesMapStale flag, cached partition; insert / insertAll / extendAndInsert / contains / size / getBoundaries<1>, one action per
   API call, transcribed from the code) over 4 elements {MIN,-1,0,MAX} x 1 relation and 3 elements x 2 relations, bounded history
   length: a fresh cache is exactly the partition, and every call refines the same-named update of spec/EqRelAbs.tla
   (PROPERTY Refines) - which pins the reading of extendAndInsert.
R: TLC's state graph is dumped; walks covering every transition are replayed on the real EquivalenceRelation<Tuple<RamDomain,2>>
   and dense order, parent/rank arrays, stale flag, cached partition and the call's result are compared after every call
   (deviation = MODEL-DRIFT).  Part of the walks run again with the whole query battery after every updating call.
T: API histories of real executions are validated by TLC against the property-level spec/EqRelAbs.tla:
   - the replayed walks;
   - "staleness": for every pair of partitions of subsets of {MIN,0,MAX} (thorough: {MIN,-1,0,MAX}) as contents of two relations:
     build, READ both (size / iteration / partition / per-element range, rotating - the read freshens the cached partition lists),
     one merging call (insertAll, extendAndInsert, insert), then the battery on both relations;
   - seeded random sequential histories over 1-3 relations with values at both ends of the 32-bit domain;
   - concurrent insert phases (1-8 threads; cooperative scheduler with seeded random, directed and deviation-bounded schedules;
     real-thread stress) followed by the battery.
   The battery = contains, size, full / per-element / per-pair iteration, closure, partition; the order of its reads rotates so
   that every kind of read is in some history the first one after an update."""
import os, subprocess, random, re, json, time
from .. import build, tlc, graphwalk, tracecheck, known, tlaval
from ..common import workdir, seed, Result, SPEC, HARNESS, BUILD
from ..evidence import finish

PID = "C28"
KNOWN_ID = "concurrent-insert-lost-union"
IMAX = 2147483647
IMIN = -2147483648
EXTREME = [IMIN, IMIN + 1, -1, 0, 1, IMAX - 1, IMAX]
ACTIONS = ["Insert", "InsertAll", "Extend", "Contains", "Size", "Anterior"]

# ------------------------------------------------------------------------------------------------ S
def model_check(res, wd, cfg, timeout=1500, dot=None):
    r = tlc.run_tlc(os.path.join(SPEC, "MC_EqRel.tla"), os.path.join(SPEC, cfg), wd, timeout=timeout,
                    extra=["-coverage", "1"] + (["-dump", "dot,actionlabels", dot] if dot else []))
    if r["violated"]:
        return r, "TLC: %s violated by spec/EqRelImpl.tla under %s" % (r["violated"], cfg)
    if not r["ok"]:
        res.infra_errors.append("%s: %s" % (cfg, r["error"] or "tlc failed")); return r, None
    res.add_tlc(r)
    res.cov.setdefault("model_configs", {})[cfg] = {"states": r["distinct"], "transitions": r["generated"], "depth": r["depth"]}
    cov = tlc.coverage_counts(r["out"])
    never = [a for a in ACTIONS if a in cov and cov[a][0] == 0 and not (a in ("InsertAll", "Extend") and "EqRel1" in cfg)]
    if never:
        res.infra_errors.append("vacuity: actions never taken under %s: %s" % (cfg, never))
    return r, None

# ------------------------------------------------------------------------------------------------ driver I/O
def pair(s):
    a, b = s.split(":")
    return [int(a), int(b)]

def pairlist(s):
    return [] if s in ("-", "") else [pair(x) for x in s.split(",")]

def parse_event(line):
    f = line.split(" ")
    k = f[0]
    if k == "insert":
        a, b = pair(f[2]); return {"e": k, "r": int(f[1]), "a": a, "b": b}
    if k in ("insertAll", "extend"):
        return {"e": k, "r": int(f[1]), "o": int(f[2])}
    if k == "contains":
        a, b = pair(f[2]); return {"e": k, "r": int(f[1]), "a": a, "b": b, "res": f[3] == "1"}
    if k == "size":
        return {"e": k, "r": int(f[1]), "n": int(f[2])}
    if k == "all":
        return {"e": k, "r": int(f[1]), "s": pairlist(f[2])}
    if k in ("ant", "closure"):
        return {"e": k, "r": int(f[1]), "a": int(f[2]), "s": pairlist(f[3])}
    if k == "antpost":
        a, b = pair(f[2]); return {"e": k, "r": int(f[1]), "a": a, "b": b, "s": pairlist(f[3])}
    if k == "part":
        return {"e": k, "r": int(f[1]), "n": int(f[2]), "ch": [pairlist(x) for x in f[3].split("|")[:-1]]}
    raise ValueError("unknown event " + line)

def run_driver(drv, lines, timeout=2400):
    p = subprocess.run([drv], input="\n".join(lines) + "\n", capture_output=True, text=True, timeout=timeout)
    hist = []; cur = None
    for ln in p.stdout.split("\n"):
        if ln.startswith("J "):
            cur = {"line": int(ln.split(" ")[2]), "label": "", "events": [], "states": [], "livelock": False}
            hist.append(cur)
        elif cur is None:
            continue
        elif ln.startswith("D "):
            cur["label"] = ln[2:]
        elif ln.startswith("V "):
            try:
                cur["events"].append(parse_event(ln[2:]))
            except (IndexError, ValueError):
                cur["truncated"] = ln       # the driver died while printing this line
        elif ln.startswith("S "):
            cur["states"].append(ln)
        elif ln.startswith("LIVELOCK"):
            cur["livelock"] = True
    crash = None
    if p.returncode != 0:
        crash = (p.returncode, p.stderr[-600:], hist[-1]["line"] if hist else -1)
    return hist, crash

def _save(wd, name, lines):
    path = os.path.join(wd, name + ".txt")
    with open(path, "w") as f:
        f.write("\n".join(lines) + "\n")
    return path

def report_exec_problems(res, wd, hists, crash, lines):
    for h in hists:
        if h["livelock"]:
            res.violations.append(("real EquivalenceRelation livelocked (2000000 scheduler steps although every thread kept being "
                                   "scheduled): %r %r" % (lines[h["line"]], h["label"]),
                                   _save(wd, "livelock_%d" % h["line"], [lines[h["line"]]])))
    if crash and not any(h["livelock"] for h in hists):
        rc, err, last = crash
        nxt = lines[min(last + 1, len(lines) - 1)] if lines else "?"
        res.violations.append(("eqrel driver died rc=%d after job %d (next %r): %s" % (rc, last, nxt, err),
                               _save(wd, "driver_crash", lines[max(0, last):last + 2])))

# ------------------------------------------------------------------------------------------------ T
def is_concurrent(line):
    """a concurrent insert phase with at least two inserting threads"""
    f = line.split(" ")
    return f[0] == "C" and len([p for p in f[2].split(";") if p and p != "-"]) >= 2

def as_set(v):
    return set(tuple(x) if isinstance(x, list) else x for x in v)

def loses_only(ev, exp_text):
    """the deviating answer under-approximates the partition model: related pairs are missing, nothing is invented or repeated"""
    try:
        exp = tlaval.parse(exp_text)
    except Exception:
        return False
    k = ev["e"]
    if k == "contains":
        return exp is True and ev["res"] is False
    if k == "size":
        return ev["n"] < exp
    if k in ("all", "ant", "antpost", "closure"):
        got = [tuple(x) for x in ev["s"]]
        return len(set(got)) == len(got) and set(got) < as_set(exp)
    if k == "part":
        got = [tuple(x) for c in ev["ch"] for x in c]
        return len(set(got)) == len(got) and set(got) < as_set(exp)
    return False

def validate(res, wd, name, hists, kf):
    """hists: histories tagged with job (the driver line); concatenated (reset between them) and judged by TLC against EqRelAbs"""
    events = []; owner = []
    for hi, h in enumerate(hists):
        events.append({"e": "reset"}); owner.append(hi)
        for e in h["events"]:
            events.append(e); owner.append(hi)
    if not events:
        return
    acc, consumed, r = tracecheck.validate("EqRelAbsTrace", events, wd, name, constants="CONSTANT Rels = {1, 2, 3}", timeout=2400, heap="12g")
    res.count("trace_events", len(events))
    if acc is None:
        res.infra_errors.append("trace validation %s failed to run: %s" % (name, str(r["error"])[-800:])); return
    res.add_tlc(r)
    devs = {}
    for m in re.finditer(r'<<"MISMATCH", (\d+), (.*)>>', r["out"]):
        devs.setdefault(int(m.group(1)), m.group(2))
    if not acc:
        devs[min(consumed, len(events) - 1) + 1] = "event not enabled in spec/EqRelAbs.tla"
    listed = known.is_listed(kf, PID, KNOWN_ID)
    by_hist = {}
    for l, exp in sorted(devs.items()):
        by_hist.setdefault(owner[l - 1], []).append((events[l - 1], exp))
    for hi, dv in sorted(by_hist.items()):
        h = hists[hi]; line = h["job"]
        # known finding: concurrent inserts (>= 2 threads) after which related pairs are missing - and nothing else is wrong
        if listed and is_concurrent(line) and all(loses_only(ev, exp) for ev, exp in dv):
            res.count("histories_with_known_finding")
            if not any(k.startswith(KNOWN_ID) for k in res.known):
                ev, exp = dv[0]
                res.known.append(known.describe(kf, PID, KNOWN_ID) + " -- e.g. job %r schedule %r: %s, the partition model says %s"
                                 % (line, h["label"], ev, exp[:300]))
            res.cov.setdefault("known_finding_jobs", [])
            if len(res.cov["known_finding_jobs"]) < 5:
                res.cov["known_finding_jobs"].append({"job": line, "schedule": h["label"], "deviating_answers": len(dv)})
            continue
        ev, exp = dv[0]
        ups = [e for e in h["events"] if e["e"] in ("insert", "insertAll", "extend")]
        res.count("histories_rejected")
        if len(res.violations) >= 25:
            continue
        res.violations.append(("history of the real EquivalenceRelation rejected by spec/EqRelAbs.tla: %s, the partition model says %s "
                               "(%d deviating answers); job %r schedule %r; updates %s" % (ev, exp[:600], len(dv), line, h["label"], ups[:40]),
                               _save(wd, "rejected_%s_%d" % (name, hi), [line])))
    res.cov["traces_validated_against_impl"] += len(hists) - len(by_hist) if acc else owner[min(consumed, len(events) - 1)]

# ------------------------------------------------------------------------------------------------ R
def ints(s):
    return [] if s == "-" else [int(x) for x in s.split(",")]

def real_states(line):
    """S k out | d2s par rnk stale cache | ..."""
    parts = line.split(" | ")
    head = parts[0].split(" ")
    rels = []
    for p in parts[1:]:
        f = p.split(" ")
        cache = None
        if f[3] == "0":
            cache = {}
            if f[4] != "-":
                for kv in f[4].split("/"):
                    k, v = kv.split("=")
                    cache[int(k)] = ints(v)
        rels.append({"d2s": ints(f[0]), "par": [x + 1 for x in ints(f[1])], "rnk": ints(f[2]), "stale": f[3] == "1", "cache": cache})
    return head[2], rels

def as_list(v):
    if isinstance(v, dict):
        return [v[k] for k in sorted(v, key=int)]
    return list(v)

def model_states(s):
    objs = as_list(s["obj"])
    rels = []
    for o in objs:
        cache = None
        if not o["stale"]:
            c = o["cache"]
            if isinstance(c, list):      # a function whose domain happens to be 1..n is printed as a tuple
                c = {i + 1: x for i, x in enumerate(c)}
            cache = {int(k): list(v) for k, v in c.items()}
        rels.append({"d2s": list(o["d2s"]), "par": list(o["par"]), "rnk": list(o["rnk"]), "stale": o["stale"], "cache": cache})
    return s["out"], rels

def op_of(action, params):
    p = [x.strip() for x in (params or "").split(",")]
    if action == "Insert":
        return "i:%s:%s:%s" % tuple(p)
    if action == "Contains":
        return "c:%s:%s:%s" % tuple(p)
    if action == "InsertAll":
        return "A:%s:%s" % tuple(p)
    if action == "Extend":
        return "X:%s:%s" % tuple(p)
    if action == "Size":
        return "s:%s" % p[0]
    if action == "Anterior":
        return "a:%s:%s" % tuple(p)
    raise ValueError(action)

def replay(res, wd, cfg, nrels, drv, dot, max_walks=None):
    g = graphwalk.Graph(dot)
    walks = g.covering_walks(max_len=60)
    total = len(walks)
    if max_walks and len(walks) > max_walks:
        walks = random.Random(seed()).sample(walks, max_walks)
    lines = []
    for init, w in walks:
        ops = ",".join(op_of(g.edges[i][2], g.edges[i][3]) for i in w)
        lines.append("Q %d x %s" % (nrels, ops))        # state comparison after every call
    for init, w in walks[:max(1, (2 * len(walks)) // 5)]:
        ops = ",".join(op_of(g.edges[i][2], g.edges[i][3]) for i in w)
        lines.append("Q %d b %s" % (nrels, ops))        # the same history with the query battery after every updating call
    hists, crash = run_driver(drv, lines)
    report_exec_problems(res, wd, hists, crash, lines)
    steps = 0; drift = 0
    for h in hists:
        if h["line"] >= len(walks):
            continue
        init, w = walks[h["line"]]
        states = [init] + [g.edges[i][1] for i in w]
        mismatch = None
        for k, line in enumerate(h["states"]):
            if k >= len(states):
                break
            mo, mr = model_states(g.state(states[k])); ro, rr = real_states(line); steps += 1
            if k > 0 and mo != ro:
                mismatch = "call %d (%s): result %s vs spec %s" % (k, op_of(g.edges[w[k - 1]][2], g.edges[w[k - 1]][3]), ro, mo)
            elif mr != rr:
                diff = ["relation %d %s: real %s vs spec %s" % (ri + 1, f, rr[ri][f], mr[ri][f])
                        for ri in range(len(mr)) for f in ("d2s", "par", "rnk", "stale", "cache") if mr[ri][f] != rr[ri][f]]
                mismatch = "call %d (%s): %s" % (k, op_of(g.edges[w[k - 1]][2], g.edges[w[k - 1]][3]) if k else "-", "; ".join(diff))
            if mismatch:
                break
        if mismatch:
            drift += 1
            if drift <= 3:
                print("MODEL-DRIFT property=C28 real EquivalenceRelation deviates from spec/EqRelImpl.tla on %r: %s"
                      % (lines[h["line"]], mismatch), flush=True)
    res.count("walks_replayed", len(walks)); res.count("calls_compared", steps); res.count("model_drift_walks", drift)
    res.cov.setdefault("graphs", {})[cfg] = {"states": len(g.labels), "edges": len(g.edges), "covering_walks": total,
                                             "edges_replayed": len(set(i for _, w in walks for i in w))}
    if lines:
        res.sample({"replayed walk": lines[len(walks) // 2]})
    return hists, lines

# ------------------------------------------------------------------------------------------------ job generation
def set_partitions(xs):
    if not xs:
        yield []
        return
    first, rest = xs[0], xs[1:]
    for p in set_partitions(rest):
        for i in range(len(p)):
            yield p[:i] + [[first] + p[i]] + p[i + 1:]
        yield [[first]] + p

def parts_of_subsets(elems):
    """every partition of every subset of elems (each class a list)"""
    out = []
    for mask in range(1 << len(elems)):
        sub = [e for i, e in enumerate(elems) if mask >> i & 1]
        out.extend(set_partitions(sub))
    return out

def build_ops(r, part):
    """insert calls that make relation r hold exactly the partition"""
    ops = []
    for k in part:
        ops += ["i:%d:%d:%d" % (r, k[0], x) for x in k[1:]] or ["i:%d:%d:%d" % (r, k[0], k[0])]
    return ops

def gen_jobs(tier, rng):
    q = tier == "quick"
    fam = {"sequential": [], "staleness": [], "concurrent": [], "directed": [], "systematic": [], "stress": []}
    # seeded random sequential histories, 1..3 relations, values at both ends of the 32-bit domain
    for k in range(80 if q else 1200):
        nrels = rng.choice([1, 2, 2, 3])
        pool = rng.sample(EXTREME, rng.choice([3, 4, 5]))
        ops = []
        for _ in range(rng.randint(2, 8)):
            x = rng.random()
            r = rng.randint(1, nrels)
            o = rng.choice([y for y in range(1, nrels + 1) if y != r] or [0])
            if x < 0.5 or not o:
                ops.append("i:%d:%d:%d" % (r, rng.choice(pool), rng.choice(pool)))
            elif x < 0.65:
                ops.append("A:%d:%d" % (r, o))
            elif x < 0.85:
                ops.append("X:%d:%d" % (r, o))
            elif x < 0.9:
                ops.append("s:%d" % r)
            elif x < 0.95:
                ops.append("c:%d:%d:%d" % (r, rng.choice(pool), rng.choice(pool)))
            else:
                ops.append("a:%d:%d" % (r, rng.choice(pool)))
        fam["sequential"].append("Q %d %s %s" % (nrels, rng.choice("b-"), ",".join(ops)))
    # cache-staleness covering histories: for every pair (PA, PB) of partitions of subsets of a small element set: build
    # relation 1 = PA and relation 2 = PB, READ both (the read - size / full iteration / partition / per-element range - freshens
    # the cached partition lists), apply one merging call, then the whole battery on both relations
    elems = [IMIN, 0, IMAX] if q else [IMIN, -1, 0, IMAX]
    parts = parts_of_subsets(elems)
    idx = 0
    for pa in parts:
        for pb in parts:
            for op in ("A:1:2", "X:1:2"):
                reads = {0: ["s:1", "s:2"], 1: ["l:1", "l:2"], 2: ["p:1:3", "p:2:3"],
                         3: ["a:1:%d" % (pa[0][0] if pa else elems[0]), "a:2:%d" % (pb[0][0] if pb else elems[0])]}[idx % 4]
                idx += 1
                fam["staleness"].append("Q 2 - %s" % ",".join(build_ops(1, pa) + build_ops(2, pb) + reads + [op]))
    # ... and a single insert(a, b) after the reads
    for pa in parts:
        for a in elems:
            for b in elems:
                reads = {0: ["s:1"], 1: ["l:1"], 2: ["p:1:3"], 3: ["a:1:%d" % (pa[0][0] if pa else elems[0])]}[idx % 4]
                idx += 1
                fam["staleness"].append("Q 1 - %s" % ",".join(build_ops(1, pa) + reads + ["i:1:%d:%d" % (a, b)]))
    # concurrent insert phases under the cooperative scheduler, 1..8 threads
    def cprog(nt, per, pool):
        return ";".join(",".join("%d:%d" % (rng.choice(pool), rng.choice(pool)) for _ in range(rng.randint(1, per))) for _ in range(nt))
    for k in range(120 if q else 1800):
        nt = rng.choice([1, 2, 2, 3, 3, 4, 8])
        pool = rng.sample(EXTREME, rng.choice([3, 4, 5, 6]))
        setup = ",".join("i:1:%d:%d" % (rng.choice(pool), rng.choice(pool)) for _ in range(rng.randint(0, 2))) or "-"
        fam["concurrent"].append("C %s %s R%d:%d:%d" % (setup, cprog(nt, 3, pool), rng.randrange(1 << 30),
                                                        rng.choice([0, 50, 200, 1000]), rng.choice([0, 50, 80, 95])))
    # directed schedules: two threads insert the same (root, new element) pair, a third party's find follows; the window of
    # deviation points around union's rank reads and find's compare-exchange (elements also at the ends of the domain)
    for (a, b, c) in ((0, 2, 3), (IMIN, IMAX, -1)):
        prog = "C i:1:%d:%d %d:%d,%d:%d;%d:%d;%d:%d" % (a, b, a, c, a, a, a, c, c, c)
        for k1 in range(16, 20):
            for k2 in range(65, 70):
                fam["directed"].append("%s D%d:2:%d:3" % (prog, k1, k2))
    # systematic: every schedule with <= 2 deviations from run-to-completion (breadth first, capped)
    for prog in ("C i:1:0:2 0:3,0:0;0:3;3:3", "C - 0:1;1:2;2:0", "C i:1:0:1 0:2;1:2", "C - %d:%d;%d:%d" % (IMIN, IMAX, IMAX, IMIN)):
        fam["systematic"].append("%s P2:%d" % (prog, 60 if q else 1500))
    # real-thread stress, 2..8 threads
    for k in range(40 if q else 600):
        nt = rng.choice([2, 4, 8, 8])
        pool = rng.sample(EXTREME, rng.choice([4, 6, 7])) if rng.random() < 0.7 else list(range(-3, 4))
        setup = ",".join("i:1:%d:%d" % (rng.choice(pool), rng.choice(pool)) for _ in range(rng.randint(0, 2))) or "-"
        fam["stress"].append("C %s %s S%d:%d" % (setup, cprog(nt, 6, pool), rng.randrange(1 << 30), rng.choice([0, 100, 400])))
    return fam

# ------------------------------------------------------------------------------------------------ entry
def run(tier, replay_path=None):
    res = Result(PID, tier)
    wd = workdir(PID)
    kf = known.load()
    drv = build.harness_cxx(os.path.join(HARNESS, "eqreldrv.cpp"), os.path.join(BUILD, "harness", "eqreldrv"))
    if replay_path:
        p = subprocess.run([drv], input=open(replay_path).read(), capture_output=True, text=True)
        print(p.stdout); return 0
    q = tier == "quick"
    phases = res.cov.setdefault("phase_seconds", {})
    t0 = time.time()
    # S: the replay configurations are model-checked and dumped in one TLC run; thorough adds the larger bounds
    rcfgs = (("MC_EqRel1r.cfg", 1), ("MC_EqRel2r.cfg", 2))
    cfgs = [c for c, _ in rcfgs] + ([] if q else ["MC_EqRel1.cfg", "MC_EqRel2.cfg", "MC_EqRel1t.cfg", "MC_EqRel2t.cfg"])
    dots = {}
    for cfg in cfgs:
        dot = os.path.join(wd, "eqrel_graph_%s.dot" % cfg) if cfg.endswith("r.cfg") else None
        r, viol = model_check(res, wd, cfg, timeout=3000, dot=dot)
        if viol:
            path = os.path.join(wd, "tlc_%s.out" % cfg); open(path, "w").write(r["out"])
            res.violations.append((viol, path))
        elif dot and r["ok"]:
            dots[cfg] = dot
    phases["S model checking"] = round(time.time() - t0, 1); t0 = time.time()
    allh = []
    for cfg, nrels in rcfgs:
        if cfg not in dots:
            continue
        hists, lines = replay(res, wd, cfg, nrels, drv, dots[cfg], max_walks=250 if q else 4000)
        for h in hists:
            h.update(job=lines[h["line"]], fam="replay"); allh.append(h)
    phases["R replay"] = round(time.time() - t0, 1)
    rng = random.Random(seed() * 7919 + 28)
    fam = gen_jobs(tier, rng)
    for fname, lines in fam.items():
        if not lines:
            continue
        t0 = time.time()
        hists, crash = run_driver(drv, lines)
        phases["T driver " + fname] = round(time.time() - t0, 1)
        res.count("histories_" + fname, len(hists))
        report_exec_problems(res, wd, hists, crash, lines)
        for h in hists:
            h.update(job=lines[h["line"]], fam=fname); allh.append(h)
        if hists:
            h = hists[len(hists) // 2]
            res.sample({"family": fname, "job": h["job"], "schedule": h["label"],
                        "events": [json.dumps(e) for e in h["events"][:10]]}, limit=12)
    t0 = time.time()
    # one TLC run per chunk of about 250 000 events (the generated data module must stay loadable)
    chunk = []; n = 0; ci = 0
    for h in allh:
        chunk.append(h); n += len(h["events"]) + 1
        if n >= 250000:
            validate(res, wd, "MCT_EqRel%d" % ci, chunk, kf); chunk = []; n = 0; ci += 1
    if chunk:
        validate(res, wd, "MCT_EqRel%d" % ci, chunk, kf)
    phases["T tlc"] = round(time.time() - t0, 1)
    res.sample({"spec": "EqRelImpl.tla / EqRelAbs.tla", "configs": cfgs})
    return finish(res, "model_checking", assumptions=[
        "concurrent insert phases are serialised at the hook points (uf.get, piggy.*, ripiggy.*, orw.*) by the cooperative scheduler; "
        "C++ memory-model effects are only met by the real-thread stress runs",
        "the result of insert is not constrained (the property does not mention it); it is compared with EqRelImpl in the replay only",
        "closure(x) / getBoundaries are called as the header documents (closure only for present elements)",
        "the model-checked space is 4 elements x 1 relation and 3 elements x 2 relations with bounded history length; longer histories "
        "and 3 relations are covered by seeded random histories only"])
