"""C17 - writing a relation and reading it back with the matching input options reproduces the tuples, for every
output format and every attribute type.

TLC (spec/MC_CsvIO over spec/CsvIO.tla) enumerates (format, relation shape, tuple) over an adversarial alphabet, checks
the specification theorem  Representable => Read(Write(v)) = v  and prints per vector: the tuple, Representable, the
exact file text Write must produce, and the text under the known-deviation models of the unrepaired writer.
Here: every tuple enters the real writer as a program-text fact (no reader involved), the file bytes are compared with
the specification's text, a second program loads the file with the matching options and compares the loaded relation
with the same program-text facts inside Datalog (equality joins, only counts are printed, so no writer is involved in
observing the reader).  Representable tuples must round-trip; tuples the specification calls unrepresentable are not
judged (outcome classes are counted as observations)."""
import concurrent.futures as cf, threading, json, os, random, re, shutil, time
from .. import build, iofmt as io, known, tlc
from ..common import SPEC, NCPU, Result, workdir, seed, log, VERIF
from ..evidence import finish

PID = "C17"
ARGS = ["--no-preprocessor"]          # no C preprocessor process per run (the programs use no macros)

# ---------------------------------------------------------------------------------------------------------------
def writer_program(fmt, vecs, outdir):
    lines = [io.TYPE_DECLS]
    for v in vecs:
        n = "w%d" % v["id"]
        lines.append(io.decl(n, v["types"]))
        lines.append(io.fact(n, v["types"], v["t"]))
        lines.append(".output %s(%s)" % (n, ", ".join(io.io_opts(fmt, os.path.join(outdir, n + io.file_ext(fmt))))))
    return "\n".join(lines) + "\n"

def reader_program(fmt, vecs, outdir, dump=False):
    # pad: records the writing process never had, created first, so that a format that stores record-table indices
    # instead of record contents cannot round-trip by coincidence of the two processes' tables
    lines = [io.TYPE_DECLS, ".decl aaa_pad(a:R, b:RR, c:RA)", 'aaa_pad(["pad1", 1], [["pad2", 2], 3], [$S("pad3"), 4]).',
             'aaa_pad(["pad4", 5], [nil, 6], [$N(), 7]).', ".decl res(k:number, missing:number, unexpected:number)",
             "res(-1, 0, c) :- c = count : { aaa_pad(_, _, _) }."]
    for v in vecs:
        n = "w%d" % v["id"]; e = "e%d" % v["id"]
        vs = ", ".join("xyzuvw"[i] for i in range(len(v["types"])))
        lines.append(io.decl(n, v["types"]))
        lines.append(".input %s(%s)" % (n, ", ".join(io.io_opts(fmt, os.path.join(outdir, n + io.file_ext(fmt))))))
        lines.append(io.decl(e, v["types"]))
        lines.append(io.fact(e, v["types"], v["t"]))
        lines.append("res(%d, m, u) :- m = count : { %s(%s), !%s(%s) }, u = count : { %s(%s), !%s(%s) }."
                     % (v["id"], e, vs, n, vs, n, vs, e, vs))
        if dump:
            lines.append(".output %s(IO=stdout)" % n)
    lines.append(".output res(IO=stdout)")
    return "\n".join(lines) + "\n"

def parse_res(out):
    rows = io.stdout_relation(out, "res")
    if rows is None:
        return None
    r = {}
    for row in rows:
        k, m, u = row.split("\t")
        r[int(k)] = (int(m), int(u))
    return r

NPROC = [0]
_plock = threading.Lock()
def do_write(fmt, vecs, d, tag):
    with _plock:
        NPROC[0] += 1
    os.makedirs(os.path.join(d, "out"), exist_ok=True)
    p = os.path.join(d, "write_%s.dl" % tag)
    with open(p, "w") as f:
        f.write(writer_program(fmt, vecs, os.path.join(d, "out")))
    return p, io.souffle(p, out=os.path.join(d, "out"), args=ARGS)

def do_read(fmt, vecs, d, tag, dump=False):
    with _plock:
        NPROC[0] += 1
    p = os.path.join(d, "read_%s.dl" % tag)
    with open(p, "w") as f:
        f.write(reader_program(fmt, vecs, os.path.join(d, "out"), dump))
    pr = io.souffle(p, facts=os.path.join(d, "out"), out=os.path.join(d, "out"), args=ARGS)
    return p, pr, (parse_res(pr.out) if pr.kind == "ok" else None)

# ---------------------------------------------------------------------------------------------------------------
def signature(fmt, v, o):
    """Finding id whose exact signature this failure has, or None.  o: dict with write/read outcome."""
    n = fmt["name"]; types = v["types"]
    syms = [s for ty, x in zip(types, v["t"]) for s in io.symbols(ty, x)]
    if n in ("json-list", "json-object"):
        if any(t in ("A", "E", "RA") for t in types) and o["write"] == "crash":
            return "json-adt-abort"
        # only the float values JSON has no literal for: inf / -inf / nan are printed as bare words (the reader then
        # refuses the file) and the sign of -0.0 is lost; every other float deviation in JSON is a violation
        bad = [x for ty, x in zip(types, v["t"]) if ty == "f" and
               ((x["k"] == "fs" and x["s"] in ("inf", "-inf", "nan")) or (x["k"] == "fv" and x["neg"] and io.text(x["m"]) == "0"))]
        if bad and o["write"] == "ok":
            special = any(x["k"] == "fs" for x in bad)
            if (special and o["read"] == "error") or (not special and o["read"] == "ok" and o["cmp"] == (1, 1)):
                return "json-float"
        return None
    if n == "sqlite":
        if any(t in ("A", "E") for t in types) and o["read"] == "crash":
            return "sqlite-adt-abort"
        if any(t in ("R", "RR", "RA") for t in types) and o["write"] == "ok":
            return "sqlite-record"
        # after the writer repair (float columns hold the value) only the values the SQLite channel cannot carry remain:
        # nan is stored as NULL and a subnormal as text that std::stof refuses (reader error), -0.0 loses its sign in
        # the INTEGER-affinity column; any other float deviation in SQLite is a violation again
        bad = [x for ty, x in zip(types, v["t"]) if ty == "f" and
               ((x["k"] == "fs" and x["s"] in ("nan", "dmin")) or (x["k"] == "fv" and x["neg"] and io.text(x["m"]) == "0"))]
        if bad and o["write"] == "ok":
            special = any(x["k"] == "fs" for x in bad)
            if (special and o["read"] == "error") or (not special and o["read"] == "ok" and o["cmp"] == (1, 1)):
                return "sqlite-float-special-values"
        return None
    if any(x["k"] == "fs" and x["s"] == "dmin" for x in v["t"]) and o["write"] == "ok" and o["read"] == "error":
        return "float-denormal-unreadable"
    rfc = fmt["rfc"] or n == "gzip-rfc4180"
    if rfc and o["write"] == "ok" and o.get("alt") in ("q", "b", "qb"):
        # the file is byte for byte what the known-deviation model of the writer produces
        q = any('"' in s for s, nested in syms if not nested)
        b = any("\\" in s for s, nested in syms if nested)
        if o["alt"] == "q" and q:
            return "rfc4180-quote-escaping"
        if o["alt"] == "b" and b:
            return "rfc4180-record-backslash"
        if o["alt"] == "qb" and q and b:
            return "rfc4180-quote-escaping+rfc4180-record-backslash"
        return None
    if not rfc and fmt["kind"] == "text" and "," in io.text(fmt["delim"]) and o["write"] == "ok" and o.get("bytes_equal") \
            and (o["read"] == "error" or (o["read"] == "ok" and o["cmp"] != (0, 0))):
        # a top-level ADT field whose text holds a ',' (argument list, or a record argument: the reader ends the field
        # at the record's ']')
        for (ty, x), ft in zip(zip(types, v["t"]), io.seq(v.get("fields")) or []):
            if ty == "A" and "," in io.text(ft):
                return "comma-delimiter-adt"
    return None

def judge(res, kf, fmt, v, o, d, files):
    """Verdict for one vector.  Representable: must have round-tripped."""
    failed = None
    if o["write"] != "ok":
        failed = "writer %s: %s" % (o["write"], o.get("werr", ""))
    elif o["read"] != "ok":
        failed = "reader %s on the writer's own file: %s" % (o["read"], o.get("rerr", ""))
    elif o["cmp"] != (0, 0):
        failed = "read back silently differs: %d written tuple(s) missing, %d unexpected tuple(s) loaded" % o["cmp"]
    if not v["rep"]:
        cls = "roundtrip" if not failed else ("loud" if o["read"] == "error" or o["write"] == "error" else
                                              "silent" if o["write"] == "ok" and o["read"] == "ok" else "crash")
        res.count("unrepresentable_" + cls)
        if cls in ("silent", "crash") and len(res.cov.setdefault("unrepresentable_samples", [])) < 8:
            res.cov["unrepresentable_samples"].append({"format": fmt_name(fmt), "tuple": show(v), "outcome": cls + ": " + (failed or "")[:160]})
        return
    res.count("traces_validated_against_impl")
    if o.get("bytes_equal") is False:
        res.count("file_bytes_differ_from_spec")
    elif o.get("bytes_equal"):
        res.count("file_bytes_equal_spec")
    if not failed:
        return
    desc = "format %s, relation (%s), tuple %s: %s" % (fmt_name(fmt), ",".join(v["types"]), show(v), failed)
    if o.get("bytes_equal") is False:
        desc += "; file bytes %r, specification %r" % (o.get("real"), io.text(v["txt"]))
    rp = os.path.join(d, "replay_w%d.json" % v["id"])
    with open(rp, "w") as f:
        json.dump({"property": PID, "format": fmt, "vector": v, "outcome": {k: (x if not isinstance(x, bytes) else x.decode("latin-1")) for k, x in o.items()},
                   "files": files, "desc": desc}, f, indent=1, default=str)
    sig = signature(fmt, v, o)
    ids = sig.split("+") if sig else []
    if ids and all(known.is_listed(kf, PID, i) for i in ids):
        for i in ids:
            msg = known.describe(kf, PID, i)
            with res._lock:
                if msg not in res.known:
                    res.known.append(msg)
            res.count("known_finding_hits")
            res.count("known_" + i)
        return
    with res._lock:
        res.violations.append((desc, rp))

def fmt_name(fmt):
    if fmt["kind"] == "channel":
        return fmt["name"]
    return "text(rfc4180=%s, delimiter=%r, headers=%s)" % (str(fmt["rfc"]).lower(), io.text(fmt["delim"]), str(fmt["headers"]).lower())

def show(v):
    return "(" + ", ".join(io.show(t, x) for t, x in zip(v["types"], v["t"])) + ")"

# ---------------------------------------------------------------------------------------------------------------
def observe_bytes(fmt, v, d, o):
    """Compare the written file with the specification's text (text formats, gzip after decompression)."""
    if fmt["kind"] != "text":
        return
    real = io.read_bytes(os.path.join(d, "out", "w%d%s" % (v["id"], io.file_ext(fmt))), gz=fmt["name"].startswith("gzip"))
    if real is None:
        return
    o["real"] = real.decode("latin-1")
    o["bytes_equal"] = o["real"] == io.text(v["txt"])
    if not o["bytes_equal"]:
        alt = io.seq(v["alt"]) or {}
        for name in ("q", "b", "qb"):             # smallest known-deviation model that explains the bytes
            if name in alt and io.text(alt[name]) == o["real"]:
                o["alt"] = name
                break

_tag = [0]
def tag():
    _tag[0] += 1
    return "%d" % _tag[0]

def write_set(fmt, vecs, d, outs):
    """Write the vectors (one relation and one file each) with as few processes as possible: one program; when it does
    not succeed the set is halved until the failing vectors are isolated."""
    if not vecs:
        return
    wp, w = do_write(fmt, vecs, d, tag())
    if w.kind == "ok":
        for v in vecs:
            o = outs[v["id"]]
            o["write"] = "ok"; o["files"]["write"] = wp
            observe_bytes(fmt, v, d, o)
    elif len(vecs) == 1:
        o = outs[vecs[0]["id"]]
        o["write"] = w.kind; o["werr"] = w.brief(); o["files"]["write"] = wp
    else:
        h = len(vecs) // 2
        write_set(fmt, vecs[:h], d, outs); write_set(fmt, vecs[h:], d, outs)

def read_set(fmt, vecs, d, outs):
    """Read the files back and compare inside Datalog.  A relation whose loading fails with a message naming it is
    recorded and taken out; an unattributable failure halves the set."""
    if not vecs:
        return
    rp, r, cmp = do_read(fmt, vecs, d, tag(), dump=len(vecs) == 1)
    if r.kind == "ok" and cmp is not None and all(v["id"] in cmp for v in vecs):
        for v in vecs:
            o = outs[v["id"]]
            o["read"] = "ok"; o["cmp"] = cmp[v["id"]]; o["files"]["read"] = rp
            if len(vecs) == 1:
                o["loaded"] = io.stdout_relation(r.out, "w%d" % v["id"])
        return
    m = re.search(r"Error loading w(\d+) data", r.err)
    bad = [v for v in vecs if m and v["id"] == int(m.group(1))]
    if r.kind == "error" and bad:
        o = outs[bad[0]["id"]]
        o["read"] = "error"; o["rerr"] = r.brief(); o["files"]["read"] = rp
        read_set(fmt, [v for v in vecs if v is not bad[0]], d, outs)
    elif len(vecs) == 1:
        o = outs[vecs[0]["id"]]
        o["read"] = r.kind if r.kind != "ok" else "error"; o["rerr"] = r.brief() or ("result relation unreadable: " + r.out[-200:])
        o["files"]["read"] = rp
    else:
        h = len(vecs) // 2
        read_set(fmt, vecs[:h], d, outs); read_set(fmt, vecs[h:], d, outs)

def group_job(fmt, vecs, d):
    """All vectors of one (format, shape): {id: outcome}."""
    outs = {v["id"]: {"write": None, "read": None, "cmp": None, "files": {}} for v in vecs}
    for part in ([v for v in vecs if v["rep"]], [v for v in vecs if not v["rep"]]):
        write_set(fmt, part, d, outs)
        read_set(fmt, [v for v in part if outs[v["id"]]["write"] == "ok"], d, outs)
    return outs

def single(fmt, v, d):
    outs = group_job(fmt, [v], d)
    return outs[v["id"]]

def run(tier, replay=None):
    res = Result(PID, tier)
    build.ensure_souffle()
    kf = known.load()
    if replay:
        return run_replay(replay)
    wd = workdir(PID)
    cfg = "MC_CsvIO1.cfg" if tier == "quick" else "MC_CsvIO2.cfg"
    r = tlc.run_tlc(os.path.join(SPEC, "MC_CsvIO.tla"), os.path.join(SPEC, cfg), wd, timeout=2400)
    if not r["ok"]:
        if r["violated"]:
            res.infra_errors.append("specification theorem of CsvIO.tla violated (%s): spec bug, not souffle: %s" % (r["violated"], r["out"][-1500:]))
        else:
            res.infra_errors.append(r["error"] or "tlc failed")
        return finish(res, "model_checking")
    res.add_tlc(r)
    log("C17: TLC done after %.0fs" % (time.time() - res.t0))
    fmts = {j["i"]: j for j in r["json"] if j.get("tag") == "FMT"}
    vecs = [j for j in r["json"] if j.get("tag") == "V"]
    r = None
    for i, v in enumerate(vecs):
        v["id"] = i; v["t"] = io.seq(v["t"]); v["types"] = io.seq(v["types"])
        for x in v["t"]:
            if x["k"] == "fv" and not io.is_binary32(io.float_fraction(x)):
                res.infra_errors.append("float domain of MC_CsvIO contains a non-binary32 value: %s" % x)
    rng = random.Random(seed())
    groups = {}
    nun = 0
    for v in vecs:
        groups.setdefault((v["f"], v["k"]), []).append(v)
    per_group = 3 if tier == "quick" else 10 ** 9      # unrepresentable tuples are observations only: a seeded sample in the quick tier
    for key in sorted(groups):
        g = groups[key]
        un = [v for v in g if not v["rep"]]
        keep = set(x["id"] for x in (rng.sample(un, per_group) if len(un) > per_group else un))
        groups[key] = [v for v in g if v["rep"] or v["id"] in keep]
        nun += len(keep)
    res.cov.update({"vectors": len(vecs), "vectors_representable": sum(1 for v in vecs if v["rep"]), "unrepresentable_run": nun,
                    "formats": [fmt_name(f) for f in fmts.values()], "relation_shapes": sorted({v["k"] for v in vecs})})
    seen = set()
    pool = cf.ThreadPoolExecutor(NCPU)
    try:
        futs = {key: pool.submit(group_job, fmts[key[0]], g, os.path.join(wd, "f%d_%s" % key)) for key, g in groups.items()}
        for key in sorted(futs):
            outs = futs[key].result()
            d = os.path.join(wd, "f%d_%s" % key)
            fmt = fmts[key[0]]
            clean = True
            for v in groups[key]:
                o = outs[v["id"]]
                o["cmp"] = tuple(o["cmp"]) if o["cmp"] is not None else None
                judge(res, kf, fmt, v, o, d, o["files"])
                ok = o["write"] == "ok" and o["read"] == "ok" and o["cmp"] == (0, 0)
                clean = clean and (ok or not v["rep"])
                skey = (fmt["name"], fmt["rfc"], v["k"], ok)
                if v["rep"] and ((not ok and skey not in seen and len(seen) < 5) or (ok and rng.random() < 0.003)):
                    seen.add(skey)
                    res.sample({"format": fmt_name(fmt), "tuple": show(v), "spec_text": io.text(v["txt"]) if fmt["kind"] == "text" else None,
                                "real_text": o.get("real"), "round_trip": ok}, limit=12)
            res.count("relation_groups")
            if clean:
                res.count("relation_groups_clean")
                shutil.rmtree(d, ignore_errors=True)
    finally:
        pool.shutdown()
    res.cov["souffle_processes"] = NPROC[0]
    return finish(res, "model_checking", assumptions=[
        "program-text facts denote the tuples the specification names (string escapes of the scanner; cross-checked by the raw tab-separated bytes)",
        "floats are restricted to binary32 values whose exact decimal expansion has at most 9 significant digits, plus inf/-inf/nan/smallest subnormal as opaque tokens",
        "JSON and SQLite are treated as channels: only round trip is judged, their bytes are not modelled; gzip files are compared after decompression",
        "tuples the specification calls unrepresentable in a plain text format are not judged (outcome classes counted as observations; a seeded sample in the quick tier)",
        "carriage return is not in the alphabet; interpreter IO only (the synthesised code uses the same stream classes)"])

def run_replay(path):
    with open(path) as f:
        rp = json.load(f)
    fmt, v = rp["format"], rp["vector"]
    d = workdir(PID + "_replay")
    o = single(fmt, v, d)
    o["cmp"] = tuple(o["cmp"]) if o["cmp"] is not None else None
    print(json.dumps({"format": fmt_name(fmt), "tuple": show(v), "outcome": {k: x for k, x in o.items() if k != "real"},
                      "real_text": o.get("real"), "spec_text": io.text(v["txt"])}, indent=1, default=str))
    bad = o["write"] != "ok" or o["read"] != "ok" or o["cmp"] != (0, 0)
    if bad and v["rep"]:
        print("VIOLATION property=%s replay=%s" % (PID, path))
        return 1
    return 0
