"""C12 - lattice relations hold one least-upper-bound value per key.
TLC computes the least fixpoint of the lattice relation (spec/Lattice.tla: Kleene iteration with the join as a constant
table, other strata by spec/Datalog.tla) and judges the final database of every real run: at most one tuple per key and
equal to that fixpoint.  The joins are user-defined stateful functors (harness/lattice_functors.cpp) mirroring the tables."""
import os, json, random, copy, re, shutil
import concurrent.futures as cf
from .. import gen, build, tlc, render
from ..common import workdir, seed, Result, SPEC, NCPU, HARNESS, BUILD, write_data, run as runcmd
from ..evidence import finish

V = lambda n: {"k": "var", "n": n}
N = lambda v: {"k": "num", "v": v}
F = lambda op, *a: {"k": "fn", "op": op, "a": list(a)}
ANY = {"k": "any"}
def atom(rel, *args): return {"k": "atom", "rel": rel, "args": list(args)}
def cmp(op, l, r): return {"k": "cmp", "op": op, "l": l, "r": r}
def rel(name, types, inp=False): return {"name": name, "arity": len(types), "types": types, "input": inp, "output": True, "eqrel": False}
BOTTOM = {"max": 0, "min": 3, "or": 0, "flat": 0}

def step(join, l, rng):
    """a monotone function of the lattice value (w.r.t. the join's order), staying inside 0..3"""
    if join == "max":
        return rng.choice([l, F("MIN", F("ADD", l, N(1)), N(3)), F("MAX", l, N(1))])
    if join == "min":
        return rng.choice([l, F("MAX", F("SUB", l, N(1)), N(0)), F("MIN", l, N(2))])
    if join == "or":
        return rng.choice([l, F("BOR", l, N(1)), F("BAND", l, N(2))])
    return l

def family(rng, idx):
    join = rng.choice(["max", "max", "min", "or", "flat"])
    shape = rng.choice(["reach", "reach", "twokey", "downstream", "tworules"])
    dom = {"i": [0, 1, 2], "s": ["a", "b"]}
    rels = [rel("e", ["i", "i"], True), rel("s", ["i", "i"], True)]
    cl = []; strata = [["e"], ["s"]]
    l = V("l")
    if shape == "twokey":
        rels.append(rel("v", ["i", "i", "i"]))
        cl.append({"head": {"rel": "v", "args": [V("x"), V("y"), V("c")]}, "body": [atom("e", V("x"), V("y")), atom("s", V("y"), V("c"))]})
        cl.append({"head": {"rel": "v", "args": [V("x"), V("z"), step(join, l, rng)]}, "body": [atom("v", V("x"), V("y"), l), atom("e", V("y"), V("z"))]})
    else:
        rels.append(rel("v", ["i", "i"]))
        cl.append({"head": {"rel": "v", "args": [V("x"), V("c")]}, "body": [atom("s", V("x"), V("c"))]})
        cl.append({"head": {"rel": "v", "args": [V("y"), step(join, l, rng)]}, "body": [atom("v", V("x"), l), atom("e", V("x"), V("y"))]})
        if shape == "tworules":
            cl.append({"head": {"rel": "v", "args": [V("x"), step(join, l, rng)]}, "body": [atom("v", V("y"), l), atom("e", V("x"), V("y")), cmp("NE", V("x"), V("y"))]})
            cl.append({"head": {"rel": "v", "args": [V("x"), N(rng.choice([1, 2]))]}, "body": [atom("e", V("x"), V("x"))]})
    strata.append(["v"])
    if shape == "downstream":
        rels.append(rel("hi", ["i"])); rels.append(rel("lo", ["i"]))
        cl.append({"head": {"rel": "hi", "args": [V("x")]}, "body": [atom("v", V("x"), l), cmp("GE", l, N(2))]})
        cl.append({"head": {"rel": "lo", "args": [V("x")]}, "body": [atom("e", V("x"), ANY), {"k": "neg", "rel": "v", "args": [V("x"), ANY]}]})   # (a negated atom with a bound lattice value is matched on the key only by souffle: outside C12)
        strata += [["hi"], ["lo"]]
    P = {"id": "lat_%d_%s_%s" % (idx, join, shape), "types": [], "rels": rels, "clauses": cl, "strata": strata, "dom": dom,
         "lattice": {"rel": "v", "join": join}, "family": shape + "/" + join}
    g = gen.Gen(rng, max_edbs=16, edb_sample=10); g.types = []; g.dom = dom
    g.edb_space(P)
    return P

def text(P):
    j = P["lattice"]["join"]
    out = [".type L <: number", ".functor lub_%s(a:L, b:L):L stateful" % j, ".functor glb_%s(a:L, b:L):L stateful" % j,
           ".lattice L<> { Bottom -> %d, Lub -> @lub_%s(_,_), Glb -> @glb_%s(_,_) }" % (BOTTOM[j], j, j)]
    for r in P["rels"]:
        attrs = ["a%d:number" % i for i in range(r["arity"])]
        if r["name"] == P["lattice"]["rel"]:
            attrs[-1] = "a%d:L<>" % (r["arity"] - 1)
        out.append(".decl %s(%s)" % (r["name"], ", ".join(attrs)))
        if r["input"]:
            out.append(".input " + r["name"])
        out.append(".output " + r["name"])
    for c in P["clauses"]:
        c2 = copy.deepcopy(c)
        if c2["head"]["rel"] == P["lattice"]["rel"]:
            c2["head"]["args"][-1] = {"k": "fn", "op": "AS", "to": "L", "a": [c2["head"]["args"][-1]]}
        out.append(render.clause(c2))
    return "\n".join(out) + "\n"

def for_tlc(P):
    d = gen.strip_for_tlc(P)
    for r in d["rels"]:
        r["choice"] = []
    d["lattice"] = P["lattice"]
    return d

def run(tier, replay=None):
    res = Result("C12", tier)
    build.ensure_souffle()
    wd = workdir("C12")
    libdir = os.path.join(BUILD, "harness")
    build.harness_cxx(os.path.join(HARNESS, "lattice_functors.cpp"), os.path.join(libdir, "liblattice_functors.so"),
                      extra=["-shared", "-fPIC"], openmp=False)
    rng = random.Random(seed() * 307 + 12)
    nprog = 10 if tier == "quick" else 100
    Ps = [family(rng, i) for i in range(nprog)]
    jobs = []
    for i, P in enumerate(Ps):
        pdir = os.path.join(wd, "p%d" % i); os.makedirs(pdir, exist_ok=True)
        dl = os.path.join(pdir, "p.dl"); open(dl, "w").write(text(P))
        exe = None
        if i < (1 if tier == "quick" else 8):
            exe = os.path.join(pdir, "p.exe")
            rc, so, se = runcmd([build.SOUFFLE, "-j4", "-llattice_functors", "-L" + libdir, "-o", exe, dl], timeout=900)
            if rc != 0:
                res.violations.append(("compiling lattice program failed: " + se[-600:], dl)); exe = None
        edbs = P["edbs"]["list"] if P["edbs"]["mode"] == "list" else None
        if edbs is None:
            g = gen.Gen(rng); g.types = []; g.dom = P["dom"]
            ins = [x for x in P["rels"] if x["input"]]
            edbs = [{x["name"]: [t for t in g.tuples(x["types"]) if rng.random() < d] for x in ins} for d in (0.2, 0.4, 0.6, 0.8)]
        for k, edb in enumerate(edbs[: (6 if tier == "quick" else 10)]):
            for j in ([1, 4] if tier == "quick" else [1, 2, 4, 8]):
                jobs.append((i, k, edb, j, None))
                if exe:
                    jobs.append((i, k, edb, j, exe))
    def one(job):
        i, k, edb, j, exe = job
        P = Ps[i]
        d = os.path.join(wd, "p%d" % i, "e%d_j%d_%s" % (k, j, "c" if exe else "i"))
        render.write_facts(P, edb, os.path.join(d, "facts")); os.makedirs(os.path.join(d, "out"), exist_ok=True)
        env = {"SOUFFLE_VERIF_PERTURB": "%d:%d" % (seed() * 100 + j + k, 100), "LD_LIBRARY_PATH": libdir}
        cmd = ([exe] if exe else [build.SOUFFLE, "-llattice_functors", "-L" + libdir]) + \
              ["-j%d" % j, "-F", os.path.join(d, "facts"), "-D", os.path.join(d, "out")] + ([] if exe else [os.path.join(wd, "p%d" % i, "p.dl")])
        rc, so, se = runcmd(cmd, timeout=120, env=env)
        if rc != 0:
            return job, d, None, "rc=%s %s" % (rc, se[-400:])
        return job, d, {r["name"]: render.read_output(P, r["name"], os.path.join(d, "out", r["name"] + ".csv")) for r in P["rels"]}, None
    with cf.ThreadPoolExecutor(NCPU) as ex:
        outs = list(ex.map(one, jobs))
    jc = []; meta = []
    for job, d, final, err in outs:
        i, k, edb, j, exe = job
        if err:
            res.violations.append(("lattice program run failed (%s, -j%d): %s" % ("compiled" if exe else "interpreter", j, err), d)); continue
        jc.append({"p": i + 1, "edb": edb, "final": final}); meta.append((job, d))
    dd = os.path.join(wd, "judge")
    write_data(dd, "DatalogData", {"Programs": [for_tlc(P) for P in Ps], "LatticeCases": jc})
    r = tlc.run_tlc(os.path.join(SPEC, "MC_Lattice.tla"), os.path.join(SPEC, "MC_Lattice.cfg"), dd, lib=dd, timeout=1500)
    verd = {}
    for m in re.finditer(r'<<"VERDICT", (\d+), (TRUE|FALSE), (.*?)>>\n', r["out"] + "\n"):
        verd[int(m.group(1))] = (m.group(2) == "TRUE", m.group(3))
    if not r["ok"] or len(verd) != len(jc):
        res.infra_errors.append("MC_Lattice failed: " + str(r["error"] or r["violated"])[-800:])
    else:
        res.add_tlc(r)
    nontriv = 0
    for idx, (c, (job, d)) in enumerate(zip(jc, meta)):
        v = verd.get(idx + 1)
        if v is None:
            continue
        i, k, edb, j, exe = job
        if len(c["final"]["v"]) > 0:
            nontriv += 1
        if not v[0]:
            path = os.path.join(d, "replay.json")
            json.dump({"program": Ps[i]["id"], "dl": os.path.join(wd, "p%d" % i, "p.dl"), "edb": edb, "jobs": j, "compiled": bool(exe),
                       "final": c["final"], "failed": v[1]}, open(path, "w"), indent=1)
            res.violations.append(("final database violates LatticeOK (%s) - program %s, -j%d, %s"
                                   % (v[1], Ps[i]["id"], j, "compiled" if exe else "interpreter"), path))
        else:
            res.cov["traces_validated_against_impl"] += 1
            shutil.rmtree(d, ignore_errors=True)
    res.cov.update({"programs": len(Ps), "final_databases_judged": len(jc), "with_nonempty_lattice_relation": nontriv,
                    "families": sorted(set(P["family"] for P in Ps))})
    if jc:
        res.sample({"program": text(Ps[jc[len(jc) // 2]["p"] - 1]), "edb": jc[len(jc) // 2]["edb"], "final": jc[len(jc) // 2]["final"]})
    return finish(res, "model_checking", assumptions=["finite lattices as constant join tables (max chain, min chain, bit-mask union, flat 0<1,2<3) mirrored by C functors",
                                                      "rules apply monotone functions to the lattice value; one lattice relation per program"])
