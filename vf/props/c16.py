"""C16 - component instantiation is equivalent to textual expansion.

Generator programs of the C01 fragment are wrapped (vf/compgen.py) into component hierarchies: (A) one component,
(B) inheritance chain with split clauses, (C) type-parameterised outer component with `.init inner = T`,
(D) overridable relation replaced through `.override`, (E) several instantiations, (F) depth-3 nesting,
(G) component declared inside a component / its base shadowing a global one.
  expected : TLC evaluates  Programs == << Flatten(CP1), ... >>  (spec/Components.tla: the expansion, a transcription
             of ComponentInstantiation.cpp) and the unchanged spec/MC_Datalog computes the model of every expanded
             program for every EDB of the bounded space; the relation list of the expanded program (names like
             `a.inner.r0`, their types and .output flags) is printed by TLC as well - Python expands nothing;
  real     : vf/comprender.py prints the same CP with .comp/.init, the guarded souffle (interpreter, and compiled for
             a sample) runs it on the EDBs, the `I.rel.csv` files are compared with the model as sets of typed tuples;
  cross    : TLC's model of Flatten(CP) must be TLC's model of the original flat program under the intended renaming
             (a disagreement is a fault of the spec or of the wrapping generator and is reported as INFRA-ERROR)."""
import json, os, random, shutil, time, concurrent.futures as cf
from .. import gen, evalcore, build, render, comprender, compgen, tlc, souffle as sf
from ..common import workdir, seed, Result, NCPU, SPEC, canon, to_tla, run as runcmd
from ..evidence import finish

FEATURES = ["neg", "agg", "arith", "str", "rec", "adt", "range", "recursion", "mutual", "facts", "nullary", "cmp", "bits"]

def write_data(d, CPs):
    """DatalogData for this check: the component programs as plain definitions, Programs as their expansion BY TLC."""
    os.makedirs(d, exist_ok=True)
    defs = ["CP%d == %s" % (i + 1, to_tla(compgen.strip_for_tlc(CP))) for i, CP in enumerate(CPs)]
    defs.append("Programs == <<%s>>" % ", ".join("Flatten(CP%d)" % (i + 1) for i in range(len(CPs))))
    defs.append('ASSUME \\A i \\in 1..Len(Programs) : PrintT(ToJson([tag |-> "FLAT", p |-> i, rels |-> Programs[i].rels,\n'
                '          clauses |-> Programs[i].clauses, strata |-> Programs[i].strata]))')
    with open(os.path.join(d, "DatalogData.tla"), "w") as f:
        f.write("---- MODULE DatalogData ----\nEXTENDS TLC, Integers, Sequences, Json, Components\n%s\n====\n" % "\n".join(defs))

def flat_models(CPs, wd, res, chunk, timeout=2400):
    """cases[q] = TLC's MODEL records of Flatten(CPs[q]); flat[q] = the expanded program as printed by TLC."""
    cases = [[] for _ in CPs]; flat = [None] * len(CPs)
    for b in range(0, len(CPs), chunk):
        d = os.path.join(wd, "flat_%d" % b)
        write_data(d, CPs[b:b + chunk])
        r = tlc.run_tlc(os.path.join(SPEC, "MC_Datalog.tla"), os.path.join(SPEC, "MC_Datalog.cfg"), d, timeout=timeout, lib=d)
        if not r["ok"]:
            res.infra_errors.append(("spec-level property %s violated on an expanded program: %s" % (r["violated"], r["out"][-1500:]))
                                    if r["violated"] else (r["error"] or "tlc failed"))
            continue
        res.add_tlc(r)
        for j in r["json"]:
            if j.get("tag") == "MODEL":
                cases[b + j["p"] - 1].append(j)
            elif j.get("tag") == "FLAT":
                flat[b + j["p"] - 1] = j
    return cases, flat

def cross_check(CP, P, fcases, ocases, fl, res):
    """Flatten(CP) against the original flat program, both evaluated by TLC, under the intended renaming."""
    ins = {r["name"] for r in P["rels"] if r["input"]}
    want = ins | {v for mp in CP["copies"] for v in mp.values()}
    have = {r["name"] for r in fl["rels"]}
    if want != have:
        return "relations of Flatten(%s) are %s, the wrapping intended %s" % (CP["id"], sorted(have), sorted(want))
    orig = {canon(c["edb"]): c for c in ocases}
    n = 0
    for c in fcases:
        o = orig.get(canon(c["edb"]))
        if o is None:
            return "EDB %s of %s has no counterpart in the original program" % (c["edb"], CP["id"])
        if bool(o["oob"]) != bool(c["oob"]):
            return "out-of-domain flags differ for %s on %s" % (CP["id"], c["edb"])
        for mp in CP["copies"]:
            for a, b in mp.items():
                if sorted(map(canon, c["full"][b])) != sorted(map(canon, o["full"][a])):
                    return "Flatten(%s): %s = %s but %s = %s in the original program, EDB %s" % (
                        CP["id"], b, c["full"][b][:6], a, o["full"][a][:6], c["edb"])
        n += 1
    res.count("cross_checked_cases_flatten_vs_original", n)
    return None

def replay_run(path):
    j = json.load(open(path))
    d = os.path.dirname(path)
    o = sf.run_dl(j["dl"], os.path.join(d, "facts"), os.path.join(d, "out_replay"), args=j.get("args", []))
    print("souffle rc=%s kind=%s\n%s" % (o.rc, o.kind, o.stderr[-800:]))
    bad = 0
    if o.kind == "ok":
        sf.collect(j["flat"], os.path.join(d, "out_replay"), o)
        for rel, want in sf.model_outputs(j["expected"]).items():
            if o.outputs.get(rel) != want:
                bad += 1; print("relation %s: expected %s got %s" % (rel, want, o.outputs.get(rel)))
    if bad or o.kind != "ok":
        print("VIOLATION property=C16 replay=%s" % path); return 1
    print("replay agrees with the model"); return 0

def run(tier, replay=None):
    build.ensure_souffle()
    if replay:
        return replay_run(replay)
    res = Result("C16", tier)
    wd = workdir("C16")
    quick = tier == "quick"
    n = 6 if quick else 60
    max_cases = 6 if quick else 16
    n_compiled = 2 if quick else 24
    Ps = gen.programs(seed() * 1000 + 16, n, features=FEATURES, hide_some=False, eqrel=True, n_idb=(3, 5), max_edbs=32, edb_sample=8)
    CPs = []; owner = []
    for i, P in enumerate(Ps):
        for s in compgen.SHAPES:
            CPs.append(compgen.wrap(P, s, random.Random("%d/%d/%s" % (seed(), i, s)))); owner.append(i)
    t0 = time.time(); res2 = Result("C16", tier)
    with cf.ThreadPoolExecutor(2) as ex:       # the two TLC runs side by side
        f1 = ex.submit(flat_models, CPs, wd, res, 42 if quick else 70)
        f2 = ex.submit(evalcore.tlc_models, Ps, wd, res2, None, 2400, 40)
        (fcases, flat), ocases = f1.result(), f2.result()
    res.infra_errors += res2.infra_errors
    t_tlc = time.time() - t0; t0 = time.time()
    # ---- spec against spec: the expansion is the original program renamed
    for q, CP in enumerate(CPs):
        if flat[q] is None or not fcases[q]:
            res.infra_errors.append("TLC produced no expansion/model for %s" % CP["id"]); continue
        e = cross_check(CP, Ps[owner[q]], fcases[q], ocases[owner[q]], flat[q], res)
        if e:
            res.infra_errors.append("spec/generator inconsistency (not a souffle defect): " + e)
    # ---- the original flat programs must run at all (known compiler crashes are left out, see evalcore)
    usable = {}
    def probe(i):
        P = Ps[i]; cs = [c for c in ocases[i] if not c["oob"]]
        if not cs:
            return i, None, "no case inside the value domain"
        d = os.path.join(wd, "orig%d" % i); os.makedirs(d, exist_ok=True)
        dl = os.path.join(d, "p.dl"); open(dl, "w").write(render.program(P, src_clauses=P["clauses"]))
        render.write_facts(P, cs[-1]["edb"], os.path.join(d, "facts"))
        o = sf.run_dl(dl, os.path.join(d, "facts"), os.path.join(d, "out"))
        if o.kind == "timeout":
            o = sf.run_dl(dl, os.path.join(d, "facts"), os.path.join(d, "out"), timeout=900)
        return i, o, None
    with cf.ThreadPoolExecutor(NCPU) as ex:
        for i, o, why in ex.map(probe, range(len(Ps))):
            if o is not None and o.kind == "ok":
                usable[i] = True
            elif o is not None and evalcore.known_crash(res, "C16", o.stderr):
                pass
            else:
                res.count("programs_left_out_flat_form_does_not_run")
    # ---- the real souffle on the component programs
    rng = random.Random(seed() * 7919 + 16)
    jobs = []; compiled = set(rng.sample(range(len(CPs)), min(n_compiled, len(CPs))))
    texts = {}
    for q, CP in enumerate(CPs):
        if owner[q] not in usable or flat[q] is None:
            continue
        d = os.path.join(wd, "cp%d_%s" % (q, CP["shape"])); os.makedirs(d, exist_ok=True)
        texts[q] = os.path.join(d, "p.dl"); open(texts[q], "w").write(comprender.program(CP))
        json.dump(CP, open(os.path.join(d, "cp.json"), "w"))
        cs = [c for c in fcases[q] if not c["oob"]]
        res.count("cases_outside_value_domain", len(fcases[q]) - len(cs))
        if len(cs) > max_cases:
            cs = [cs[k] for k in sorted(rng.sample(range(len(cs)), max_cases))]
        for k, c in enumerate(cs):
            jobs.append((q, k, c, None))
        if q in compiled:
            jobs.append((q, -1, cs[:3], "compile"))
    def flatP(q):   # the expanded program's relation list as TLC printed it (+ the global type declarations)
        return {"rels": flat[q]["rels"], "types": CPs[q].get("types", []), "clauses": flat[q]["clauses"]}
    def one(job):
        q, k, c, mode = job
        FP = flatP(q); d0 = os.path.dirname(texts[q])
        if mode == "compile":
            exe = os.path.join(d0, "p.exe")
            rc, so, se = runcmd([build.SOUFFLE, "-o", exe, texts[q]], timeout=900)
            if rc == -999:
                return [(q, d0, None, "compiled", "souffle timeout (souffle -o, 15 min)")]
            if rc != 0 or not os.path.exists(exe):
                # is it the components?  the original flat program through the same compiler
                fdl = os.path.join(d0, "flat_orig.dl"); P0 = Ps[owner[q]]
                open(fdl, "w").write(render.program(P0, src_clauses=P0["clauses"]))
                rc0, so0, se0 = runcmd([build.SOUFFLE, "-o", os.path.join(d0, "flat_orig.exe"), fdl], timeout=900)
                if rc0 != 0:
                    res.count("compiled_left_out_flat_program_does_not_compile_either")
                    res.cov.setdefault("side_observations", []).append(
                        "souffle -o fails on the ORIGINAL flat program %s as well (not a component defect): %s" % (P0["id"], se0[-300:]))
                    return []
                return [(q, d0, None, "compiled", "compiling the component program failed rc=%s: %s" % (rc, se[-600:]))]
            outs = []
            for kk, cc in enumerate(c):
                d = os.path.join(d0, "x%d" % kk)
                render.write_facts(FP, cc["edb"], os.path.join(d, "facts")); os.makedirs(os.path.join(d, "out"), exist_ok=True)
                rc, so, se = runcmd([exe, "-F", os.path.join(d, "facts"), "-D", os.path.join(d, "out")], timeout=60)
                if rc == -999:      # an overloaded machine is not a defect of souffle: once more, patiently
                    rc, so, se = runcmd([exe, "-F", os.path.join(d, "facts"), "-D", os.path.join(d, "out")], timeout=900)
                o = sf.Outcome(); o.rc = rc; o.stdout = so; o.stderr = se; o.kind = sf.classify(rc, se)
                outs.append((q, d, cc, "compiled", judge(FP, cc, o, os.path.join(d, "out"))))
            return outs
        d = os.path.join(d0, "e%d" % k)
        render.write_facts(FP, c["edb"], os.path.join(d, "facts"))
        o = sf.run_dl(texts[q], os.path.join(d, "facts"), os.path.join(d, "out"))
        if o.kind == "timeout":
            o = sf.run_dl(texts[q], os.path.join(d, "facts"), os.path.join(d, "out"), timeout=900)
        return [(q, d, c, "interpreter", judge(FP, c, o, os.path.join(d, "out")))]
    def judge(FP, c, o, out):
        if o.kind == "ok":
            try:
                sf.collect(FP, out, o)
            except render.ParseError as e:
                return "unparsable output: %s" % e
            extra = sorted(f for f in os.listdir(out) if f.endswith(".csv") and f[:-4] not in c["model"])
            if extra:
                return "unexpected output files %s (the expanded program has the outputs %s)" % (extra, sorted(c["model"]))
        return evalcore.compare(FP, c, o)
    with cf.ThreadPoolExecutor(NCPU) as ex:
        results = [x for xs in ex.map(one, jobs) for x in xs]
    runs = {"interpreter": 0, "compiled": 0}; shapes = {}; notes = {}
    for q, d, c, how, bad in results:
        CP = CPs[q]
        if bad is None:
            runs[how] += 1; shapes[CP["shape"]] = shapes.get(CP["shape"], 0) + 1
            if d != os.path.dirname(texts[q]):
                shutil.rmtree(d, ignore_errors=True)
            continue
        if evalcore.known_crash(res, "C16", bad):
            continue
        if bad.startswith("souffle timeout"):      # 0.05 s of work not finished after 60 s and again after 900 s
            res.infra_errors.append("%s run of %s did not finish within 15 min (not judged): %s" % (how, CP["id"], d)); continue
        rp = os.path.join(d, "replay.json")
        json.dump({"property": "C16", "program": CP["id"], "shape": CP["shape"], "notes": CP["notes"], "dl": texts[q],
                   "mode": how, "args": [], "edb": c and c["edb"], "expected": c and c["model"], "flat": flatP(q),
                   "expanded_by_TLC": render.program(dict(flatP(q), types=[]), src_clauses=flat[q]["clauses"]),
                   "desc": bad}, open(rp, "w"), indent=1, default=str)
        res.violations.append(("[%s, shape %s %s] %s  program=%s" % (how, CP["shape"], CP["notes"], bad, CP["id"]), rp))
    for q in texts:
        for x in CPs[q]["notes"]:
            notes[x.split("-at-level")[0]] = notes.get(x.split("-at-level")[0], 0) + 1
    res.cov["traces_validated_against_impl"] = runs["interpreter"] + runs["compiled"]
    res.cov.update({"programs": len(Ps), "component_programs": len(CPs), "component_programs_run": len(texts),
                    "edb_cases_modelled": sum(len(x) for x in fcases),
                    "edb_cases_nontrivial": sum(evalcore.nontrivial(x) for x in fcases),
                    "real_runs_compared": runs, "runs_per_shape": shapes, "component_features_exercised": notes,
                    "states_of_the_original_programs_cross_check": res2.cov["states"],
                    "seconds": {"tlc": round(t_tlc, 1), "souffle": round(time.time() - t0, 1)}})
    for s in compgen.SHAPES:
        q = next((q for q in texts if CPs[q]["shape"] == s and fcases[q] and evalcore.nontrivial(fcases[q])), None)
        if q is not None:
            c = max(fcases[q], key=lambda x: sum(len(v) for v in x["model"].values()) * (not x["oob"]))
            res.sample({"component_program": comprender.program(CPs[q])[:1800], "shape": s, "notes": CPs[q]["notes"],
                        "expanded_relations_from_TLC": [r["name"] for r in flat[q]["rels"]],
                        "edb": c["edb"], "model_from_TLC": c["model"]}, limit=7)
    return finish(res, "model_checking", assumptions=[
        "spec/Components.tla (Flatten) is the meaning of .comp/.init/.override: a transcription of the instantiation algorithm, "
        "cross-checked by TLC against the original flat program under the intended renaming",
        "spec/Datalog.tla is the meaning of the expanded program",
        "programs come from a seeded generator wrapped into 7 seeded hierarchy shapes, not from all component programs",
        "component-local type declarations, .input inside components and multiple inheritance are not generated"])
