"""C07 - user plans, SIPS metrics and profile-guided auto-scheduling preserve results."""
import copy, itertools, os
from .. import gen, evalprop, build
from ..common import run as runcmd

SIPS = ["strict", "all-bound", "naive", "max-bound", "delta-max-bound", "max-ratio", "least-free", "least-free-vars", "input"]

def atoms_of(c):
    return [l for l in c["body"] if l["k"] == "atom"]

def versions(P, c):
    """number of delta versions of clause c = number of body atoms in the head's stratum; 0 = non-recursive clause,
    for which ExecutionPlanChecker refuses a plan"""
    st = next(s for s in P["strata"] if c["head"]["rel"] in s)
    return sum(1 for a in atoms_of(c) if a["rel"] in st)

def _h(pid, k):
    import zlib
    return zlib.crc32(("%s/%d" % (pid, k)).encode()) & 0xffff

def has_agg(x):
    if isinstance(x, dict):
        return x.get("k") == "agg" or any(has_agg(v) for v in x.values())
    if isinstance(x, list):
        return any(has_agg(v) for v in x)
    return False

def planned(P, rng, full, agg_clauses=False):
    """a plan for every version of every recursive clause with 2-4 body atoms.  Clauses holding an aggregate get their
    plans in a configuration of their own (agg_clauses=True): souffle checks plans after
    MaterializeSingletonAggregation has added an atom to such clauses (known finding plan-rejected-after-
    singleton-aggregate-materialisation), and a rejected program would take the other clauses' plans with it."""
    Q = copy.deepcopy(P)
    any_plan = False
    for c in Q.get("src_clauses") or Q["clauses"]:
        if c.get("disj") or c.get("heads"):
            continue
        if has_agg(c["body"]) != agg_clauses:
            continue
        n = len(atoms_of(c))
        if n < 2 or n > 4:
            continue
        perms = list(itertools.permutations(range(1, n + 1)))
        plan = []
        for v in range(versions(Q, c)):
            if full or rng.random() < 0.8:
                plan.append((v, list(rng.choice(perms))))
        if plan:
            c["plan"] = plan; any_plan = True
    return Q if any_plan else None

def configs(P, rng):
    R = __import__("random").Random
    cs = [{"name": "default order", "args": ["-j1"]}]
    for k in range(4):
        cs.append({"name": "random plans %d" % k, "args": ["-j1"], "transform": (lambda P_, k=k: planned(P_, R(_h(P_["id"], k)), True)),
                   "reject_ok": False})
    cs.append({"name": "plans on clauses with aggregates", "args": ["-j1"], "agg_plans": True,
               "transform": (lambda P_: planned(P_, R(_h(P_["id"], 9)), True, agg_clauses=True)), "reject_ok": False})
    for m in SIPS:
        cs.append({"name": "RamSIPS:" + m, "args": ["-j1", "-PRamSIPS:" + m]})
    cs.append({"name": "auto-schedule", "args": ["-j1"], "autoschedule": True})
    return cs

def known_sig(desc, P, case, cfg, o):
    import re
    if cfg.get("agg_plans") and o is not None:
        m = re.search(r"Invalid execution order in plan \(expected (\d+) atoms, not (\d+)\)", (o.stderr or "") + (o.stdout or ""))
        if m and int(m.group(1)) > int(m.group(2)):
            return "plan-rejected-after-singleton-aggregate-materialisation"
    if cfg.get("autoschedule") and o is not None and "[profiling run]" not in (o.stderr or "") and \
            "profile used for auto-scheduling doesn't match the provided program" in (o.stderr or "") + (o.stdout or ""):
        return "autoschedule-profile-key-missing-fatal"
    return None

def run(tier, replay=None):
    return evalprop.run_eval("C07", tier, lambda s, n: gen.programs(s, n), configs,
                             ["4 seeded plan assignments per program (a permutation for every version of every clause with 2-4 atoms)",
                              "auto-schedule uses a profile of the same program on the same EDB"],
                             n=(10, 120), max_cases=(8, 32), known_sig=known_sig)
