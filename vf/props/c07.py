"""C07 - user plans, SIPS metrics and profile-guided auto-scheduling preserve results."""
import copy, itertools, os
from .. import gen, evalprop, build
from ..common import run as runcmd

SIPS = ["strict", "all-bound", "naive", "max-bound", "delta-max-bound", "max-ratio", "least-free", "least-free-vars", "input"]

def atoms_of(c):
    return [l for l in c["body"] if l["k"] == "atom"]

def versions(P, c):
    """number of delta versions of clause c = number of body atoms in the head's stratum; 0 = non-recursive clause,
    for which ExecutionPlanChecker refuses a plan"""
    st = next(s for s in P["strata"] if c["head"]["rel"] in s)
    return sum(1 for a in atoms_of(c) if a["rel"] in st)

def planned(P, rng, full):
    Q = copy.deepcopy(P)
    any_plan = False
    for c in Q.get("src_clauses") or Q["clauses"]:
        if c.get("disj") or c.get("heads"):
            continue
        n = len(atoms_of(c))
        if n < 2 or n > 4:
            continue
        perms = list(itertools.permutations(range(1, n + 1)))
        plan = []
        for v in range(versions(Q, c)):
            if full or rng.random() < 0.8:
                plan.append((v, list(rng.choice(perms))))
        if plan:
            c["plan"] = plan; any_plan = True
    return Q if any_plan else None

def configs(P, rng):
    cs = [{"name": "default order", "args": ["-j1"]}]
    for k in range(4):
        cs.append({"name": "random plans %d" % k, "args": ["-j1"], "transform": (lambda P_, k=k: planned(P_, __import__("random").Random(hash((P_["id"], k)) & 0xffff), True)),
                   "reject_ok": False})
    for m in SIPS:
        cs.append({"name": "RamSIPS:" + m, "args": ["-j1", "-PRamSIPS:" + m]})
    cs.append({"name": "auto-schedule", "args": ["-j1"], "autoschedule": True})
    return cs

def run(tier, replay=None):
    return evalprop.run_eval("C07", tier, lambda s, n: gen.programs(s, n), configs,
                             ["4 seeded plan assignments per program (a permutation for every version of every clause with 2-4 atoms)",
                              "auto-schedule uses a profile of the same program on the same EDB"],
                             n=(10, 120), max_cases=(8, 32))
