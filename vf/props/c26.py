"""C26 - deletable B-trees behave as sorted sets.
S  spec/BTreeSeq.tla: deterministic structural spec of btree_delete_set with 3 keys per node (insert: split / rebalance
   into the left sibling / insert_inner; erase: swap with predecessor, merge, rebalance from a sibling, root collapse),
   transcribed from BTreeDelete.h.  TLC enumerates every reachable (tree, operation) pair over keys 1..7 and checks shape
   invariants and that every step changes the key set and reports exactly what the sorted-set model says (StepOK).
R  TLC's state graph is dumped; walks covering every transition are replayed on the real btree_delete_set; shape and
   result are compared with the spec state after every step (deviation = MODEL-DRIFT).
T  Every real history - the replayed walks, seeded random long histories over small and large key ranges on trees with 3
   keys per node and the default block size, and the concurrent-insert executions of C25's machinery run on
   BTreeDelete.h - is validated by TLC against the property-level spec SortedSetAbs (a rejection = VIOLATION); the random
   histories on small nodes are additionally replayed on BTreeSeq by TLC (MC_BTreeSeqTrace, drift only), which reaches
   depth 3-4 trees where inner nodes merge and rebalance."""
import os, subprocess, json, random, collections, time
from .. import build, tlc, graphwalk, tracecheck
from ..common import workdir, seed, Result, SPEC, HARNESS, BUILD, NCPU, log
from ..evidence import finish
from . import c25

PID = "C26"
os.environ.setdefault("JAVA_TOOL_OPTIONS", "-Xss64m")      # TLC evaluates the recursive tree operators of BTreeSeq on deep stacks

def shape_of(t):
    """TLC value [k |-> <<..>>, c |-> <<..>>] (parsed) -> the driver's shape text"""
    if not t["c"]:
        return "[" + " ".join(map(str, t["k"])) + "]"
    out = []
    for i, c in enumerate(t["c"]):
        out.append(shape_of(c))
        if i < len(t["k"]):
            out.append(str(t["k"][i]))
    return "[" + " ".join(out) + "]"

def parse_shape(s):
    """driver shape text -> nested {"k": [...], "c": [...]}"""
    pos = [0]
    def node():
        assert s[pos[0]] == "["; pos[0] += 1
        k = []; c = []
        while s[pos[0]] != "]":
            if s[pos[0]] == " ":
                pos[0] += 1
            elif s[pos[0]] == "[":
                c.append(node())
            else:
                j = pos[0]
                while s[j] not in " ]":
                    j += 1
                k.append(int(s[pos[0]:j])); pos[0] = j
        pos[0] += 1
        return {"k": k, "c": c}
    return node()

def covering_tour(g, max_len):
    """Walks from the initial state covering every edge: follow uncovered edges greedily, go to the nearest state with an
    uncovered edge otherwise; a walk is cut after max_len steps and the next one starts at the initial state again."""
    init = g.inits[0]
    unc = {u: [i for i in g.adj[u]] for u in g.adj}
    left = sum(len(v) for v in unc.values())
    walks = []; cur = init; w = []
    def path_to_uncovered(src):
        par = {src: None}; q = collections.deque([src])
        while q:
            u = q.popleft()
            if unc.get(u):
                p = []
                while par[u] is not None:
                    p.append(par[u]); u = g.edges[par[u]][0]
                return p[::-1]
            for i in g.adj[u]:
                v = g.edges[i][1]
                if v not in par:
                    par[v] = i; q.append(v)
        return None
    while left:
        if unc.get(cur):
            i = unc[cur].pop(); left -= 1
            w.append(i); cur = g.edges[i][1]
        else:
            p = path_to_uncovered(cur)
            if p is None:                       # the rest is unreachable from here: restart at the initial state
                if w:
                    walks.append(w)
                w = []; cur = init
                p = path_to_uncovered(cur)
                if p is None:
                    break
            w.extend(p); cur = g.edges[p[-1]][1]
        if len(w) >= max_len:
            walks.append(w); w = []; cur = init
    if w:
        walks.append(w)
    return init, walks

def structural(res, wd, drv, tier):
    """S + R: model-check BTreeSeq, dump its graph, replay covering walks on the real tree."""
    cfg = "MC_BTreeSeq7.cfg"
    dot = os.path.join(wd, "btreeseq.dot")
    t0 = time.time()
    r = tlc.run_tlc(os.path.join(SPEC, "MC_BTreeSeq.tla"), os.path.join(SPEC, cfg), wd, timeout=2400, workers=min(8, NCPU),
                    extra=["-dump", "dot,actionlabels", dot])
    log("C26: BTreeSeq model checking %.0fs" % (time.time() - t0))
    if r["violated"]:
        # the spec transcribes the code; whether the real tree shares the defect is decided by the replay and the trace
        # validation below, so this alone is reported as an infrastructure problem of the spec
        res.infra_errors.append("TLC: %s violated by spec/BTreeSeq.tla (%s)" % (r["violated"], cfg)); return []
    if not r["ok"]:
        res.infra_errors.append(r["error"] or "tlc failed"); return []
    res.add_tlc(r)
    if tier == "thorough":
        # keys 1..10 reach depth 3 (inner nodes split, merge and rebalance): invariants only, the graph is too large to replay
        r10 = tlc.run_tlc(os.path.join(SPEC, "MC_BTreeSeq.tla"), os.path.join(SPEC, "MC_BTreeSeq10.cfg"), os.path.join(wd, "k10"), timeout=2700,
                          workers=min(12, NCPU), heap="16g")
        if r10["violated"]:
            res.infra_errors.append("TLC: %s violated by spec/BTreeSeq.tla (MC_BTreeSeq10.cfg)" % r10["violated"])
        elif not r10["ok"]:
            res.infra_errors.append("BTreeSeq keys 1..10: " + str(r10["error"])[-500:])
        else:
            res.add_tlc(r10); res.cov["btreeseq_keys10_states"] = r10["distinct"]
    g = graphwalk.Graph(dot)
    init, walks = covering_tour(g, 1500 if tier == "quick" else 4000)
    res.cov["graph_states"] = len(g.labels); res.cov["graph_edges"] = len(g.edges)
    seen_shapes = set()
    jobs_in = []
    for w in walks:
        ops = []
        for i in w:
            e = g.edges[i]
            sh = shape_of(g.state(e[1])["tree"])
            q = sh not in seen_shapes
            seen_shapes.add(sh)
            c = "i" if e[2] == "Insert" else "e"
            ops.append((c.upper() if q else c) + e[3])
        jobs_in.append("seq d3 " + ",".join(ops))
    jobs, crashes, _ = c25.run_driver(drv, jobs_in, timeout=1500, nproc=4)
    c25.judge(res, wd, "walk", jobs, crashes, PID)
    steps = 0; drift = 0
    by_hdr = {j.header: j for j in jobs}
    for wi, w in enumerate(walks):
        j = by_hdr.get(jobs_in[wi])
        if j is None or not j.complete:
            continue
        ops = [e for e in j.events if e["e"] in ("ins", "erase")]
        for k, i in enumerate(w):
            if k >= len(ops) or k >= len(j.shapes):
                break
            st = g.state(g.edges[i][1])
            exp_shape = shape_of(st["tree"])
            got = ops[k]
            got_res = (1 if got["ok"] else 0) if got["e"] == "ins" else got["n"]
            steps += 1
            if exp_shape != j.shapes[k] or got_res != st["last"]["res"]:
                drift += 1
                if drift <= 3:
                    print("MODEL-DRIFT property=C26 real btree_delete_set deviates from spec/BTreeSeq.tla at step %d of walk %d (%s %s): "
                          "real shape %s result %s, spec shape %s result %s" % (k + 1, wi, g.edges[i][2], g.edges[i][3], j.shapes[k], got_res,
                                                                               exp_shape, st["last"]["res"]), flush=True)
                break
    res.count("walks_replayed", len(walks)); res.count("steps_compared", steps); res.count("model_drift_walks", drift)
    res.cov["distinct_shapes"] = len(seen_shapes)
    if jobs:
        j = jobs[0]
        res.sample({"walk (first 30 ops)": j.header[:160], "real shapes": j.shapes[:30][-5:], "events": j.events[:4]})
    return jobs

def random_histories(res, wd, drv, tier):
    rng = random.Random(seed() * 7919 + 3)
    n = 60 if tier == "quick" else 400
    jobs_in = []
    for i in range(n):
        tree = "d3" if i % 3 else "d256"
        kind = i % 5
        if kind == 0:
            universe = [rng.randrange(-2**31, 2**31) for _ in range(rng.choice([30, 200]))] + [-2**31, 2**31 - 1, 0, -1]
        elif kind == 1:
            universe = list(range(1, rng.choice([12, 20, 40]) + 1))
        else:
            universe = list(range(-rng.choice([5, 30, 150]), rng.choice([5, 40, 200])))
        length = rng.choice([150, 400]) if tree == "d3" else rng.choice([400, 900])
        ops = []; present = set(); p_ins = rng.choice([0.5, 0.6, 0.75])
        phase = 0
        for s in range(length):
            if s % 97 == 0:
                phase = rng.choice([0, 0, 1, 2])     # 0 mixed, 1 mostly insert (ascending bursts), 2 mostly erase
            pi = p_ins if phase == 0 else (0.95 if phase == 1 else 0.1)
            if rng.random() < pi or not present:
                k = rng.choice(universe)
                op = "i"
                present.add(k)
            else:
                k = rng.choice(sorted(present)) if rng.random() < 0.85 else rng.choice(universe)
                op = "e"
                present.discard(k)
            if s % 9 == 8:
                op = op.upper()
            ops.append("%s%d" % (op, k))
        jobs_in.append("seq %s %s" % (tree, ",".join(ops)))
    jobs, crashes, _ = c25.run_driver(drv, jobs_in, timeout=1500, nproc=4)
    c25.judge(res, wd, "hist", jobs, crashes, PID)
    res.count("random_histories", len(jobs))
    # drift check of the small-node histories against the structural spec, by TLC
    events = []
    for j in jobs:
        if not j.complete or not j.header.startswith("seq d3"):
            continue
        ops = [e for e in j.events if e["e"] in ("ins", "erase")]
        if len(events) + len(ops) > (2500 if tier == "quick" else 40000):
            break
        events.append({"op": "reset"})
        for n, (e, sh) in enumerate(zip(ops, j.shapes)):
            chk = n % 7 == 6 or n == len(ops) - 1 or len(sh) < 60
            events.append({"op": "ins" if e["e"] == "ins" else "del", "key": e["k"], "chk": chk,
                           "res": (1 if e["ok"] else 0) if e["e"] == "ins" else e["n"], "tree": parse_shape(sh) if chk else []})
    if events:
        t0 = time.time()
        acc, consumed, r = tracecheck.validate("MC_BTreeSeqTrace", events, wd, "MCT_seqshape", constants="CONSTANT M = 3\nCONSTANT Keys = {}",
                                               timeout=2400)
        log("C26: BTreeSeq trace replay %.0fs" % (time.time() - t0))
        if acc is None:
            res.infra_errors.append("BTreeSeq trace replay failed to run: " + str(r["error"])[-600:])
        else:
            res.add_tlc(r); res.count("shape_steps_checked_by_tlc", consumed if not acc else len(events))
            if not acc:
                res.count("model_drift_walks", 1)
                e = events[min(consumed, len(events) - 1)]
                print("MODEL-DRIFT property=C26 spec/BTreeSeq.tla does not reproduce the real tree at step %d of the random histories: "
                      "%s %s -> real shape %s" % (consumed + 1, e.get("op"), e.get("key"), shape_of(e["tree"]) if "tree" in e else ""), flush=True)
    if jobs:
        j = jobs[-1]
        res.sample({"random history": j.header[:200], "events": len(j.events), "last shape": j.shapes[-1:]})
    return jobs

def run(tier, replay_path=None):
    res = Result(PID, tier)
    wd = workdir(PID)
    os.makedirs(os.path.join(wd, "k10"), exist_ok=True)
    drv = build.harness_cxx(os.path.join(HARNESS, "btreedrv.cpp"), os.path.join(BUILD, "harness", "btreedrv"))
    if replay_path:
        return c25.replay(res, wd, drv, replay_path, PID)
    only = set(filter(None, os.environ.get("VERIF_C26_ONLY", "").split(",")))      # developer aid: seq,hist,dfs,rnd,stress
    on = lambda ph: not only or ph in only
    from concurrent.futures import ThreadPoolExecutor
    t0 = time.time()
    with ThreadPoolExecutor(4) as ex:
        fs = ex.submit(structural, res, wd, drv, tier) if on("seq") else None
        fh = ex.submit(random_histories, res, wd, drv, tier) if on("hist") else None
        fd = ex.submit(c25.coop_systematic, res, wd, drv, tier, "d3", PID, 3) if on("dfs") else None
        fr = ex.submit(c25.coop_random, res, wd, drv, tier, ("d3", "d256"), PID, 500 if tier == "quick" else 3000, 2) if on("rnd") else None
        jobs = []
        for f in (fs, fh, fd, fr):
            if f:
                jobs += f.result()
    log("C26: model checking, replays and cooperative runs %.0fs" % (time.time() - t0)); t0 = time.time()
    if on("stress"):
        jobs += c25.stress(res, wd, drv, tier, ("d256", "d3"), PID, 6 if tier == "quick" else 20)
    c25.validate(res, wd, "MCT_C26", jobs, PID)
    log("C26: stress and trace validation %.0fs" % (time.time() - t0))
    return finish(res, "model_checking", assumptions=[
        "the structural spec is enumerated for 3 keys per node over keys 1..7 (depth <= 2); deeper trees are covered by TLC replaying "
        "seeded random histories on the same spec",
        "erase and queries are sequential (the container gives no guarantee otherwise); hints are not reused across an erase",
    ] + c25.ASSUMPTIONS[:3])
