"""C20 - profiling is transparent and reports true relation sizes.
R: outputs with -p equal the model computed by TLC (interpreter -j1 and -j4; compiled sampled).
A: the number souffleprof's `rel` table reports for every relation (without eqrel/subsumption) is judged by TLC
   (Judge!ProfileOK) against the size of that relation in the spec's full interpretation."""
import os, re, json, random, shutil
from .. import gen, evalprop, build, judge, render, souffle as sf
from ..common import run as runcmd, seed

def configs(P, rng):
    cs = [{"name": "interpreter -p -j1", "args": ["-j1"], "profile": True},
          {"name": "interpreter -p -j4", "args": ["-j4"], "profile": True},
          {"name": "interpreter no profile", "args": ["-j1"]}]
    if rng.random() < 0.25:
        cs.append({"name": "compiled -p", "args": ["-j2", "-p", "compiled_prof.json"], "compile": True,
                   "exe_args": ["-p", "prof_exe.json"]})
    return cs

def parse_rel_table(text):
    sizes = {}
    for line in text.splitlines():
        m = re.match(r"\s*\S+s\s+\S+s\s+\S+s\s+\S+s\s+\S+s\s+\S+s\s+(\S+)\s+\S+\s+\S+\s+R\d+\s+(\S+)\s*$", line)
        if m:
            sizes[m.group(2)] = m.group(1)
    return sizes

def post(res, Ps, cases, wd):
    """A: profile sizes.  One profiled interpreter run per program on a few EDBs, table parsed, TLC judges."""
    rng = random.Random(seed() * 17 + 20)
    jc = []; meta = []
    for i, P in enumerate(Ps):
        usable = [c for c in cases[i] if not c["oob"]]
        if not usable:
            continue
        d = os.path.join(wd, "prof_p%d" % i); os.makedirs(d, exist_ok=True)
        dl = os.path.join(d, "p.dl"); open(dl, "w").write(render.program(P))
        for k, c in enumerate(usable if len(usable) <= 3 else rng.sample(usable, 3)):
            for j in ("-j1", "-j3"):
                rd = os.path.join(d, "e%d%s" % (k, j)); facts = os.path.join(rd, "facts")
                render.write_facts(P, c["edb"], facts); os.makedirs(os.path.join(rd, "out"), exist_ok=True)
                prof = os.path.join(rd, "prof.json")
                o = sf.run_dl(dl, facts, os.path.join(rd, "out"), args=[j, "-p", prof])
                if o.kind != "ok":
                    from .. import evalcore
                    if not evalcore.known_crash(res, "C20", o.stderr):
                        res.violations.append(("profiled run failed: %s %s" % (o.kind, o.stderr[-300:]), rd))
                    continue
                rc, out, err = runcmd([build.SOUFFLEPROF, prof, "-c", "rel"], timeout=60)
                sizes = parse_rel_table(out)
                rows = []
                for r in P["rels"]:
                    if r.get("eqrel") or r["name"] not in sizes:
                        continue
                    rep = sizes[r["name"]]
                    if not rep.isdigit():     # souffleprof abbreviates large numbers (e.g. 1.2K); not reached by small EDBs
                        continue
                    rows.append({"rel": r["name"], "reported": int(rep), "actual": len(c["full"][r["name"]])})
                if rows:
                    jc.append({"kind": "profile", "sizes": rows}); meta.append((P["id"], c["edb"], j, rd, dl))
    verdicts = judge.judge(jc, wd, "judge_profile", res)
    for v, c, m in zip(verdicts, jc, meta):
        if v is False:
            # known finding: an input relation that also has clauses is reported without its loaded tuples
            P = next(x for x in Ps if x["id"] == m[0])
            bad = [x for x in c["sizes"] if x["reported"] != x["actual"]]
            def known_shape(x):
                r = next(r for r in P["rels"] if r["name"] == x["rel"])
                has_clause = any(cl["head"]["rel"] == x["rel"] for cl in P["clauses"])
                return r["input"] and has_clause and x["reported"] < x["actual"]
            from .. import known
            kf = known.load()
            if bad and all(known_shape(x) for x in bad) and known.is_listed(kf, "C20", "input-relation-with-rules-undercounted"):
                msg = known.describe(kf, "C20", "input-relation-with-rules-undercounted")
                if msg not in res.known:
                    res.known.append(msg)
                res.count("known_finding_hits")
                continue
            path = os.path.join(m[3], "replay.json")
            json.dump({"program": m[0], "dl": m[4], "edb": m[1], "jobs": m[2], "sizes": c["sizes"]}, open(path, "w"), indent=1)
            bad = [x for x in c["sizes"] if x["reported"] != x["actual"]]
            res.violations.append(("souffleprof reports a size that differs from the relation's size in the model: %s (program %s, %s)"
                                   % (bad, m[0], m[2]), path))
        elif v:
            res.cov["traces_validated_against_impl"] += 1
            shutil.rmtree(m[3], ignore_errors=True)
    res.cov["profile_tables_judged"] = len(jc)
    res.cov["relation_sizes_compared"] = sum(len(c["sizes"]) for c in jc)
    if jc:
        res.sample({"profile sizes": jc[0]["sizes"]})

def run_(tier):
    return evalprop.run_eval("C20", tier, lambda s, n: gen.programs(s, n), configs,
                             ["the user-visible number is souffleprof's `rel` table column TUPLES",
                              "relation size 'at the end of evaluation' is read as its size when its stratum is complete (before expiry clears)"],
                             n=(10, 120), max_cases=(6, 24), post=post)

def run(tier, replay=None):
    return run_(tier)
