"""C05 - magic-set transformation preserves results."""
import copy
from .. import gen, evalprop
from .c04 import with_qual

def configs(P, rng):
    idb = [r["name"] for r in P["rels"] if not r["input"]]
    cs = [{"name": "no magic", "args": ["-j1"]}, {"name": "magic *", "args": ["-j1", "--magic-transform=*"]}]
    subsets = []
    if len(idb) <= 4:
        for m in range(1, 2 ** len(idb)):
            subsets.append([idb[i] for i in range(len(idb)) if m >> i & 1])
    else:
        for _ in range(10):
            subsets.append(sorted(rng.sample(idb, rng.randint(1, len(idb)))))
    for sub in subsets:
        cs.append({"name": "magic " + ",".join(sub), "args": ["-j1", "--magic-transform=" + ",".join(sub)]})
    negated = sorted({l["rel"] for c in P["clauses"] for l in c["body"] if l["k"] == "neg"} & set(idb))
    targets = list(dict.fromkeys(negated + idb[:3]))[:6]
    for rel in targets:
        cs.append({"name": "qualifier magic " + rel, "args": ["-j1"], "transform": (lambda P_, rel=rel: with_qual(P_, rel, "magic")), "reject_ok": True})
        cs.append({"name": "magic * / no_magic " + rel, "args": ["-j1", "--magic-transform=*"],
                   "transform": (lambda P_, rel=rel: with_qual(P_, rel, "no_magic")), "reject_ok": True})
        cs.append({"name": "magic * exclude " + rel, "args": ["-j1", "--magic-transform=*", "--magic-transform-exclude=" + rel]})
    return cs

def known_sig(desc, P, case, cfg, o):
    # the `magic` QUALIFIER triggers the magic-set transformation without the eqrel expansion that --magic-transform
    # enables (MainDriver: ExpandEqrelsTransformer is conditional on the option), so tuples of eqrel relations are lost
    if cfg["name"].startswith("qualifier magic ") and any(r.get("eqrel") for r in P["rels"]) and o is not None and o.kind == "ok":
        return "magic-qualifier-on-program-with-eqrel"
    return None

def run(tier, replay=None):
    return evalprop.run_eval("C05", tier, lambda s, n: gen.programs(s, n, eqrel=True, hide_some=True), configs,
                             ["relation subsets: exhaustive for <=4 IDB relations, 10 seeded subsets beyond"],
                             n=(10, 120), max_cases=(8, 32), known_sig=known_sig)
