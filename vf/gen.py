"""Seeded generator of souffle programs as JSON ASTs (the fragment of C01) plus the EDB space description.
The same JSON is given to TLC (spec/Datalog.tla computes the model) and rendered to .dl text (vf/render.py).
Nothing here evaluates a program."""
import random, itertools, copy

DOM = {"i": [0, 1, 2], "s": ["a", "b"]}

def V(n): return {"k": "var", "n": n}
def N(v): return {"k": "num", "v": v}
def S(v): return {"k": "str", "v": v}
def F(op, *a): return {"k": "fn", "op": op, "a": list(a)}
ANY = {"k": "any"}

ALL_FEATURES = ["neg", "agg", "arith", "str", "rec", "adt", "range", "recursion", "mutual", "disj",
                "multihead", "facts", "nullary", "cmp", "bits"]

class Gen:
    def __init__(self, rng, features=None, max_edbs=512, edb_sample=24, n_idb=(2, 5), dom=None, eqrel=False,
                 extreme=False, hide_some=False, opt_patterns=False, const_pool=None):
        self.rng = rng
        self.feat = set(ALL_FEATURES if features is None else features)
        self.max_edbs = max_edbs; self.edb_sample = edb_sample; self.n_idb = n_idb
        self.dom = copy.deepcopy(dom or DOM)
        self.eqrel = eqrel
        self.hide_some = hide_some; self.opt_patterns = opt_patterns; self.const_pool = const_pool
        self.types = []
        self.vc = 0

    def has(self, f):
        return f in self.feat

    # ---- variables ---------------------------------------------------------
    def fresh(self, ty):
        self.vc += 1
        return {"i": "x", "s": "s"}.get(ty, "r") + str(self.vc)

    def const(self, ty):
        r = self.rng
        if ty == "i":
            return N(r.choice(self.const_pool or [0, 1, 2, 3, -1]))
        if ty == "s":
            return S(r.choice(["a", "b", "ab", ""]))
        td = self.typedef(ty)
        if td["k"] == "rec":
            if r.random() < 0.3:
                return {"k": "nil"}
            return {"k": "rec", "a": [self.const(t) for _, t in td["fields"]]}
        if td["k"] == "adt":
            b = r.choice(td["branches"])
            return {"k": "adt", "b": b["name"], "a": [self.const(t) for _, t in b["fields"]]}

    def typedef(self, ty):
        return next(t for t in self.types if t["name"] == ty.split(":", 1)[1])

    # ---- program -----------------------------------------------------------
    def program(self, pid="p"):
        r = self.rng
        self.vc = 0
        self.types = []
        coltypes = ["i", "i", "i"]
        if self.has("str"):
            coltypes.append("s")
        if self.has("rec") and r.random() < 0.5:
            f2 = "s" if self.has("str") and r.random() < 0.3 else "i"
            self.types.append({"k": "rec", "name": "Pr", "fields": [["a", "i"], ["b", f2]]})
            coltypes.append("r:Pr")
        if self.has("adt") and r.random() < 0.4:
            self.types.append({"k": "adt", "name": "Tr", "branches": [
                {"name": "Leaf", "fields": []}, {"name": "One", "fields": [["v", "i"]]},
                {"name": "Two", "fields": [["l", "i"], ["r", "s" if self.has("str") else "i"]]}]})
            coltypes.append("a:Tr")
        rels = []
        # inputs
        n_in = r.choice([1, 1, 2])
        for k in range(n_in):
            ar = r.choice([1, 2, 2])
            tys = [r.choice(["i", "i", "i", "s"] if self.has("str") else ["i"]) for _ in range(ar)]
            rels.append({"name": "in%d" % k, "arity": ar, "types": tys, "input": True, "output": False, "eqrel": False})
        # idb groups
        n_idb = r.randint(*self.n_idb)
        groups = []
        k = 0
        while k < n_idb:
            size = 2 if (self.has("mutual") and r.random() < 0.2 and k + 1 < n_idb) else 1
            g = []
            for _ in range(size):
                if self.has("nullary") and r.random() < 0.08 and size == 1:
                    ar = 0
                else:
                    ar = r.choice([1, 2, 2, 3])
                tys = [r.choice(coltypes) for _ in range(ar)]
                eq = False
                if self.eqrel and ar == 2 and r.random() < 0.5:
                    tys = ["i", "i"]; eq = True
                rel = {"name": "r%d" % k, "arity": ar, "types": tys, "input": False, "output": True, "eqrel": eq}
                if eq:
                    rel["quals"] = ["eqrel"]
                g.append(rel); k += 1
            groups.append(g)
        rels += [x for g in groups for x in g]
        P = {"id": pid, "types": self.types, "rels": rels, "clauses": [], "dom": self.dom}
        strata = [[x["name"]] for x in rels if x["input"]]
        lower = [x for x in rels if x["input"]]
        feats = set()
        for g in groups:
            recursive = self.has("recursion") and (len(g) > 1 or r.random() < 0.5)
            for idx, h in enumerate(g):
                n_base = 1 if (idx == 0 or r.random() < 0.6) else 0
                if not recursive:
                    n_base = r.choice([1, 1, 2])
                for _ in range(n_base):
                    P["clauses"].append(self.clause(h, lower, [], False, feats))
                if recursive:
                    for _ in range(r.choice([1, 1, 2])):
                        others = [x for x in g if x is not h] if len(g) > 1 and r.random() < 0.8 else g
                        P["clauses"].append(self.clause(h, lower, others, True, feats))
                        feats.add("recursion")
                    if len(g) > 1:
                        feats.add("mutual")
                if self.has("facts") and r.random() < 0.15 and h["arity"] > 0:
                    P["clauses"].append({"head": {"rel": h["name"], "args": [self.const(t) for t in h["types"]]}, "body": []})
                    feats.add("facts")
            strata.append([x["name"] for x in g])
            lower = lower + g
        if self.has("facts") and r.random() < 0.2:
            i0 = rels[0]
            P["clauses"].append({"head": {"rel": i0["name"], "args": [self.const(t) for t in i0["types"]]}, "body": []})
            feats.add("facts")
        P["strata"] = strata
        if self.hide_some:
            idb = [x for x in rels if not x["input"]]
            for x in idb[:-1]:
                if r.random() < 0.4:
                    x["output"] = False
        if self.opt_patterns:
            self.add_opt_patterns(P, feats)
        P["hidden"] = [x["name"] for x in P["rels"] if not x["input"] and not x["output"]]
        self.source_shape(P, feats)
        self.edb_space(P)
        for t in self.types:
            feats.add(t["k"])
        P["features"] = sorted(feats)
        return P

    # ---- one clause --------------------------------------------------------
    def atom_args(self, rel, bound, feats, allow_any=True, need_bound=False):
        """arguments for a positive (or negated when need_bound) atom; updates `bound` (type -> [names])."""
        r = self.rng
        args = []
        for ty in rel["types"]:
            cands = bound.get(ty, [])
            x = r.random()
            if need_bound:
                if cands and x < 0.75:
                    args.append(V(r.choice(cands)))
                elif x < 0.9 or ty not in ("i", "s"):
                    args.append(ANY if allow_any else self.const(ty))
                else:
                    args.append(self.const(ty))
                continue
            if cands and x < 0.45:
                args.append(V(r.choice(cands)))
            elif x < 0.85 or not allow_any:
                if ty.startswith("r:") and r.random() < 0.5:
                    td = self.typedef(ty)
                    sub = []
                    for _, ft in td["fields"]:
                        v = self.fresh(ft); bound.setdefault(ft, []).append(v); sub.append(V(v))
                    args.append({"k": "rec", "a": sub}); feats.add("rec-pattern")
                elif ty.startswith("a:") and r.random() < 0.5:
                    td = self.typedef(ty); b = r.choice(td["branches"]); sub = []
                    for _, ft in b["fields"]:
                        v = self.fresh(ft); bound.setdefault(ft, []).append(v); sub.append(V(v))
                    args.append({"k": "adt", "b": b["name"], "a": sub}); feats.add("adt-pattern")
                else:
                    v = self.fresh(ty); bound.setdefault(ty, []).append(v); args.append(V(v))
            elif x < 0.93 and ty in ("i", "s"):
                args.append(self.const(ty))
            else:
                args.append(ANY)
        return args

    def int_expr(self, bound, depth=0):
        r = self.rng
        ints = bound.get("i", [])
        if depth > 1 or not ints or r.random() < 0.25:
            return V(r.choice(ints)) if ints and r.random() < 0.7 else N(r.choice([0, 1, 2, 3]))
        ops = ["ADD", "SUB", "MUL", "MAX", "MIN", "ADD", "SUB"]
        if self.has("bits"):
            ops += ["BAND", "BOR", "BXOR", "BSHIFT_L", "LAND", "LOR", "BNOT", "LNOT", "NEG", "DIV", "MOD"]
        if self.has("str") and bound.get("s"):
            ops += ["STRLEN"]
        op = r.choice(ops)
        if op in ("BNOT", "LNOT", "NEG"):
            return F(op, self.int_expr(bound, depth + 1))
        if op == "STRLEN":
            return F(op, V(r.choice(bound["s"])))
        if op in ("DIV", "MOD"):
            return F(op, self.int_expr(bound, depth + 1), N(r.choice([1, 2, 3, -2])))
        if op == "BSHIFT_L":
            return F(op, self.int_expr(bound, depth + 1), N(r.choice([0, 1, 2])))
        return F(op, self.int_expr(bound, depth + 1), self.int_expr(bound, depth + 1))

    def str_expr(self, bound):
        r = self.rng
        ss = bound.get("s", [])
        x = r.random()
        a = V(r.choice(ss)) if ss else S("a")
        if x < 0.4:
            return F("CAT", a, S(r.choice(["a", "b", "-"])) if r.random() < 0.5 or not ss else V(r.choice(ss)))
        if x < 0.6 and bound.get("i"):
            return F("I2S", V(r.choice(bound["i"])))
        if x < 0.8:
            return F("SUBSTR", a, N(r.choice([0, 1])), N(r.choice([0, 1, 2])))
        return a

    def clause(self, h, lower, same, recursive, feats):
        r = self.rng
        bound = {}
        body = []
        n_low = r.choice([1, 1, 2]) if not recursive else r.choice([0, 1, 1])
        n_same = (r.choice([1, 1, 1, 2]) if recursive else 0)
        pos = [("same", r.choice(same)) for _ in range(n_same)] + [("low", r.choice(lower)) for _ in range(n_low)]
        r.shuffle(pos)
        for _, rel in pos:
            body.append({"k": "atom", "rel": rel["name"], "args": self.atom_args(rel, bound, feats)})
        if n_same > 1:
            feats.add("nonlinear")
        # extras
        if self.has("range") and r.random() < 0.12:
            v = self.fresh("i")
            a = N(r.choice([0, 1, 3])); b = N(r.choice([0, 2, 4])) if r.random() < 0.6 or not bound.get("i") else V(r.choice(bound["i"]))
            lit = {"k": "range", "res": V(v), "a": [a, b] + ([N(r.choice([1, 2, -1, 0]))] if r.random() < 0.3 else [])}
            body.append(lit); bound.setdefault("i", []).append(v); feats.add("range")
        if self.has("arith") and bound.get("i") and r.random() < 0.35:
            v = self.fresh("i")
            body.append({"k": "cmp", "op": "EQ", "l": V(v), "r": self.int_expr(bound)})
            if recursive:
                body.append({"k": "cmp", "op": "LE", "l": V(v), "r": N(r.choice([3, 4, 6]))})
                body.append({"k": "cmp", "op": "GE", "l": V(v), "r": N(r.choice([0, -2, -4]))})
            bound.setdefault("i", []).append(v); feats.add("arith")
        if self.has("str") and self.has("arith") and r.random() < 0.2 and (bound.get("s") or bound.get("i")):
            v = self.fresh("s")
            body.append({"k": "cmp", "op": "EQ", "l": V(v), "r": self.str_expr(bound)})
            if recursive:
                body.append({"k": "cmp", "op": "LE", "l": F("STRLEN", V(v)), "r": N(3)})
            bound.setdefault("s", []).append(v); feats.add("strfn")
        if self.has("agg") and lower and r.random() < 0.25:
            lit = self.aggregate(lower, bound, feats)
            if lit:
                body.append(lit)
        if self.has("cmp") and r.random() < 0.35:
            ty = r.choice([t for t in ("i", "s") if bound.get(t)] or [None])
            if ty:
                a = V(r.choice(bound[ty]))
                b = V(r.choice(bound[ty])) if r.random() < 0.5 else self.const(ty)
                op = r.choice(["LT", "LE", "NE", "GT", "GE", "EQ"] if ty == "i" else ["NE", "EQ", "SLT", "SGE", "SLE", "SGT"])
                if not (a == b and op in ("LT", "GT", "NE", "SLT", "SGT")):
                    body.append({"k": "cmp", "op": op, "l": a, "r": b}); feats.add("cmp-" + ty)
        if self.has("cmp") and lower and r.random() < 0.3:
            # an EXISTENTIAL variable: bound by one atom, used only in one one-sided comparison (index range patterns with a
            # single bound; if-conversion / if-exists conversion of scans whose tuple is not otherwise used)
            cands = [x for x in lower if "i" in x["types"]]
            used = {l["rel"] for l in body if l["k"] == "atom"}
            fresh_rel = [x for x in cands if x["name"] not in used]     # a relation not otherwise in the body: the bound can fail for all of its tuples
            if cands:
                rel = r.choice(fresh_rel or cands)
                ev = self.fresh("i")
                pos_i = r.choice([i for i, t in enumerate(rel["types"]) if t == "i"])
                args = []
                for i, ty in enumerate(rel["types"]):
                    if i == pos_i:
                        args.append(V(ev))
                    elif bound.get(ty) and r.random() < 0.5:
                        args.append(V(r.choice(bound[ty])))
                    else:
                        args.append(ANY)
                body.append({"k": "atom", "rel": rel["name"], "args": args})
                other = V(r.choice(bound["i"])) if bound.get("i") and r.random() < 0.6 else N(r.choice([0, 1, 2]))
                op = r.choice(["LE", "GE", "LE", "GE", "LT", "GT"])
                if r.random() < 0.5:
                    body.append({"k": "cmp", "op": op, "l": V(ev), "r": other})
                else:
                    body.append({"k": "cmp", "op": op, "l": other, "r": V(ev)})
                feats.add("existential-bound")
        if self.has("neg") and lower and r.random() < 0.3:
            rel = r.choice(lower)
            body.append({"k": "neg", "rel": rel["name"], "args": self.atom_args(rel, bound, feats, need_bound=True)})
            feats.add("neg")
        # head
        hargs = []
        for ty in h["types"]:
            cands = bound.get(ty, [])
            x = r.random()
            if cands and x < 0.8:
                hargs.append(V(r.choice(cands)))
            elif ty == "i" and self.has("arith") and not recursive and bound.get("i") and x < 0.9:
                hargs.append(self.int_expr(bound)); feats.add("head-expr")
            elif ty == "s" and self.has("arith") and not recursive and x < 0.9 and self.has("str"):
                hargs.append(self.str_expr(bound)); feats.add("head-strexpr")
            elif ty.startswith("r:") and x < 0.95:
                td = self.typedef(ty)
                sub = [V(r.choice(bound[ft])) if bound.get(ft) else self.const(ft) for _, ft in td["fields"]]
                hargs.append({"k": "rec", "a": sub}); feats.add("rec-cons")
            elif ty.startswith("a:") and x < 0.95:
                td = self.typedef(ty); b = r.choice(td["branches"])
                sub = [V(r.choice(bound[ft])) if bound.get(ft) else self.const(ft) for _, ft in b["fields"]]
                hargs.append({"k": "adt", "b": b["name"], "a": sub}); feats.add("adt-cons")
            else:
                hargs.append(self.const(ty))
        if not body:   # a recursive clause with no atom would be a fact
            rel = r.choice(same or lower)
            body.append({"k": "atom", "rel": rel["name"], "args": self.atom_args(rel, bound, feats)})
        return {"head": {"rel": h["name"], "args": hargs}, "body": body}

    def aggregate(self, lower, bound, feats):
        r = self.rng
        rel = r.choice([x for x in lower if x["arity"] > 0] or [None])
        if rel is None:
            return None
        inner_bound = {t: list(v) for t, v in bound.items()}
        before = {t: set(v) for t, v in bound.items()}
        args = []
        outer = []
        for ty in rel["types"]:
            cands = bound.get(ty, [])
            if cands and r.random() < 0.4:
                v = r.choice(cands); args.append(V(v)); outer.append(v)
            else:
                v = self.fresh(ty); inner_bound.setdefault(ty, []).append(v); args.append(V(v))
        body = [{"k": "atom", "rel": rel["name"], "args": args}]
        local_i = [v for v in inner_bound.get("i", []) if v not in before.get("i", set())]
        if local_i and r.random() < 0.3:
            body.append({"k": "cmp", "op": r.choice(["LT", "GE", "NE"]), "l": V(r.choice(local_i)), "r": N(r.choice([0, 1, 2]))})
        if r.random() < 0.2:
            rel2 = r.choice([x for x in lower if x["arity"] > 0])
            a2 = []
            for ty in rel2["types"]:
                c = [v for v in inner_bound.get(ty, [])]
                if c and r.random() < 0.7:
                    v = r.choice(c); a2.append(V(v))
                    if v in before.get(ty, set()) and v not in outer:
                        outer.append(v)
                else:
                    v = self.fresh(ty); inner_bound.setdefault(ty, []).append(v); a2.append(V(v))
            body.append({"k": "atom", "rel": rel2["name"], "args": a2}); feats.add("agg-join")
            local_i = [v for v in inner_bound.get("i", []) if v not in before.get("i", set())]
        op = r.choice(["count", "count", "sum", "min", "max"]) if local_i else "count"
        res = self.fresh("i")
        bound.setdefault("i", []).append(res)
        feats.add("agg-" + op)
        tgt = {"k": "nil"}
        if op != "count":
            tgt = V(r.choice(local_i))
            if r.random() < 0.2:
                tgt = F("ADD", tgt, N(1))
        return {"k": "agg", "op": op, "res": V(res), "tgt": tgt, "body": body, "outer": sorted(set(outer))}

    # ---- patterns the AST optimisation passes look for -------------------------
    def add_opt_patterns(self, P, feats):
        r = self.rng
        rels = P["rels"]; cl = P["clauses"]; strata = P["strata"]
        def stratum_index(name):
            return next(i for i, st in enumerate(strata) if name in st)
        def rename(t, suf):
            if isinstance(t, dict):
                if t.get("k") == "var":
                    return {"k": "var", "n": t["n"] + suf}
                return {k: rename(v, suf) for k, v in t.items()}
            if isinstance(t, list):
                return [rename(x, suf) for x in t]
            return (t + suf) if False else t
        def rename_clause(c, suf):
            c2 = rename(c, suf)
            for l in c2["body"]:
                if l["k"] == "agg":
                    l["outer"] = [v + suf for v in l["outer"]]
            return c2
        rules = [c for c in cl if c["body"]]
        # alpha-equivalent duplicate clause (MinimiseProgram)
        if rules and r.random() < 0.5:
            c = r.choice(rules)
            cl.append(rename_clause(c, "d")); feats.add("opt-dup-clause")
        # constant constraints (SimplifyConstantBinaryConstraints / RemoveBooleanConstraints)
        if rules and r.random() < 0.5:
            c = r.choice(rules)
            a, b = r.choice([(1, 1), (1, 2), (0, 0), (2, 1)])
            c["body"].append({"k": "cmp", "op": r.choice(["EQ", "NE", "LT", "LE"]), "l": N(a), "r": N(b)})
            feats.add("opt-const-constraint")
        # copy relation (RemoveRelationCopies): cp(x..) :- src(x..), used instead of src in one later clause
        cands = [x for x in rels if x["arity"] > 0 and not x.get("eqrel")]
        if cands and r.random() < 0.5:
            src = r.choice(cands)
            users = [c for c in rules if any(l["k"] == "atom" and l["rel"] == src["name"] for l in c["body"])
                     and stratum_index(c["head"]["rel"]) > stratum_index(src["name"])]
            if users:
                name = "cp%d" % len(rels)
                rels.append({"name": name, "arity": src["arity"], "types": list(src["types"]), "input": False,
                             "output": r.random() < 0.3, "eqrel": False})
                vs = [V("c%d" % i) for i in range(src["arity"])]
                cl.append({"head": {"rel": name, "args": vs}, "body": [{"k": "atom", "rel": src["name"], "args": vs}]})
                strata.insert(stratum_index(src["name"]) + 1, [name])
                u = r.choice(users)
                for l in u["body"]:
                    if l["k"] == "atom" and l["rel"] == src["name"]:
                        l["rel"] = name; break
                feats.add("opt-copy-rel")
        # empty relation (RemoveEmptyRelations): no clauses, used positively in one new clause and negated in another
        if rules and r.random() < 0.4:
            name = "emp%d" % len(rels)
            rels.append({"name": name, "arity": 1, "types": ["i"], "input": False, "output": False, "eqrel": False})
            strata.insert(0, [name])
            c = r.choice(rules)
            c2 = rename_clause(copy.deepcopy(c), "e")
            if r.random() < 0.5:
                c2["body"].append({"k": "atom", "rel": name, "args": [ANY]})
            else:
                c2["body"].append({"k": "neg", "rel": name, "args": [N(0)]})
            cl.append(c2); feats.add("opt-empty-rel")
        # existential-only relation (ReduceExistentials): ex(x) :- src(x,..) ; used as ex(_)
        if cands and rules and r.random() < 0.5:
            src = r.choice([x for x in cands if x["input"]] or cands)
            users = [c for c in rules if stratum_index(c["head"]["rel"]) > stratum_index(src["name"])]
            if users:
                name = "ex%d" % len(rels)
                rels.append({"name": name, "arity": 1, "types": [src["types"][0]], "input": False, "output": False, "eqrel": False})
                vs = [V("c%d" % i) for i in range(src["arity"])]
                cl.append({"head": {"rel": name, "args": [vs[0]]}, "body": [{"k": "atom", "rel": src["name"], "args": vs}]})
                strata.insert(stratum_index(src["name"]) + 1, [name])
                u = r.choice(users)
                u["body"].append({"k": "atom", "rel": name, "args": [ANY]})
                feats.add("opt-existential")
        # sum with a constant target (RemoveRedundantSums)
        ins = [x for x in rels if x["input"]]
        if rules and r.random() < 0.4:
            cs = [c for c in rules if any(t == "i" for t in next(x for x in rels if x["name"] == c["head"]["rel"])["types"])
                  and not any(l["k"] == "atom" and stratum_index(l["rel"]) == stratum_index(c["head"]["rel"]) for l in c["body"])]
            if cs:
                c = r.choice(cs)
                src = r.choice(ins)
                hrel = next(x for x in rels if x["name"] == c["head"]["rel"])
                pos = r.choice([i for i, t in enumerate(hrel["types"]) if t == "i"])
                res = self.fresh("i")
                c["body"].append({"k": "agg", "op": "sum", "res": V(res), "tgt": N(r.choice([1, 2, 3])),
                                  # named variables, not `_`: souffle sums once per tuple, and Datalog.tla aggregates over the
                                  # set of valuations of the NAMED variables (a wildcard would collapse the tuples)
                                  "body": [{"k": "atom", "rel": src["name"], "args": [V(self.fresh(t)) for t in src["types"]]}], "outer": []})
                c["head"]["args"][pos] = V(res)
                feats.add("opt-const-sum")

    # ---- source shape: disjunctions and multiple heads ----------------------
    def source_shape(self, P, feats):
        r = self.rng
        src = []
        used = set()
        cl = P["clauses"]
        for i, c in enumerate(cl):
            if i in used:
                continue
            if self.has("disj") and c["body"] and r.random() < 0.25:
                j = next((j for j in range(i + 1, len(cl)) if j not in used and cl[j]["head"] == c["head"] and cl[j]["body"]), None)
                if j is not None:
                    used.add(j); feats.add("disj")
                    src.append({"head": c["head"], "body": c["body"], "disj": [c["body"], cl[j]["body"]]})
                    continue
            src.append(c)
        # multiple heads: a clause `h1, h2 :- body` is sugar for two clauses
        if self.has("multihead") and r.random() < 0.3:
            cands = [c for c in src if c["body"] and not c.get("disj")]
            if cands:
                c = r.choice(cands)
                hrel = next(x for x in P["rels"] if x["name"] == c["head"]["rel"])
                strat_of = {}
                # only a relation declared later than everything in the body (and not below the head) is safe
                names = [x["name"] for x in P["rels"]]
                later = [x for x in P["rels"] if not x["input"] and names.index(x["name"]) > names.index(hrel["name"])
                         and x["types"] == hrel["types"]]
                if later:
                    h2 = r.choice(later)
                    c2 = {"head": {"rel": h2["name"], "args": c["head"]["args"]}, "body": c["body"]}
                    P["clauses"].append(c2)
                    src[src.index(c)] = {"head": c["head"], "heads": [c["head"], c2["head"]], "body": c["body"]}
                    feats.add("multihead")
        P["src_clauses"] = src

    # ---- EDB space ---------------------------------------------------------
    def tuples(self, types):
        return [list(t) for t in itertools.product(*[self.dom_of(t) for t in types])]

    def dom_of(self, ty):
        if ty in self.dom:
            return self.dom[ty]
        td = self.typedef(ty)
        if td["k"] == "rec":
            vals = [["nil"]] + [["rec"] + list(t) for t in itertools.product(*[self.dom_of(ft)[:2] for _, ft in td["fields"]])]
        else:
            vals = []
            for b in td["branches"]:
                vals += [["adt", b["name"]] + list(t) for t in itertools.product(*[self.dom_of(ft)[:2] for _, ft in b["fields"]])]
        self.dom[ty] = vals
        return vals

    def edb_space(self, P):
        r = self.rng
        ins = [x for x in P["rels"] if x["input"]]
        for x in P["rels"]:
            for t in x["types"]:
                self.dom_of(t)
        P["dom"] = self.dom
        size = 1
        for x in ins:
            size *= 2 ** len(self.tuples(x["types"]))
        if size <= self.max_edbs:
            P["edbs"] = {"mode": "all"}
            P["edb_space"] = size
            return
        lst = [{x["name"]: [] for x in ins}, {x["name"]: self.tuples(x["types"]) for x in ins}]
        for _ in range(self.edb_sample - 2):
            dens = r.choice([0.2, 0.4, 0.6])
            lst.append({x["name"]: [t for t in self.tuples(x["types"]) if r.random() < dens] for x in ins})
        P["edbs"] = {"mode": "list", "list": lst}
        P["edb_space"] = size

def strip_for_tlc(P):
    """The part of the program the spec reads."""
    return {k: P[k] for k in ("rels", "clauses", "strata", "dom", "edbs")} | {"rels": [
        {k: r.get(k, False) for k in ("name", "arity", "types", "input", "output", "eqrel")} for r in P["rels"]]}

def programs(seed, n, **kw):
    rng = random.Random(seed)
    g = Gen(rng, **kw)
    return [g.program("s%d_p%d" % (seed, i)) for i in range(n)]
