"""C15 glue: (1) writes the abstract syntax that spec/Syntax.tla / MC_Syntax.tla print as JSON as souffle source text,
mechanically (every operator symbol, literal spelling and parenthesis is a field of the abstract syntax decided by the
spec); (2) names the construct kinds (ids of spec/Syntax.tla) a program of the seeded generator (vf/gen.py) uses;
(3) the textual re-spellings ("repairs") of the construct kinds whose printed form is a *listed* known finding, so that
a program using such a kind can still be taken through the rest of the pipeline.  Nothing here evaluates a program."""
import re

def quote(s):
    out = []
    for ch in s:
        out.append({"\\": "\\\\", '"': '\\"', "\n": "\\n", "\t": "\\t", "\r": "\\r"}.get(ch, ch))
    return '"' + "".join(out) + '"'

def term(t):
    k = t["k"]
    if k == "var":
        return t["n"]
    if k == "any":
        return "_"
    if k == "num":
        return t["text"]
    if k == "str":
        return quote(t["v"])
    if k == "nil":
        return "nil"
    if k == "rec":
        return "[" + ", ".join(term(a) for a in t["a"]) + "]"
    if k == "adt":
        return "$" + t["b"] + "(" + ", ".join(term(a) for a in t["a"]) + ")"
    if k == "as":
        return "as(" + term(t["a"][0]) + ", " + t["to"] + ")"
    if k == "udf":
        return "@" + t["f"] + "(" + ", ".join(term(a) for a in t["a"]) + ")"
    if k == "autoinc":
        return "autoinc()"
    if k == "dollar":
        return "$"
    if k == "iter":
        return "recursive_iteration_cnt()"
    if k == "agg":
        tgt = (" " + term(t["tgt"][0])) if t["tgt"] else ""
        body = ", ".join(literal(l) for l in t["body"])
        return "%s%s : %s" % (t["op"], tgt, ("{ " + body + " }") if t["braces"] else body)
    if k == "fn":
        a = [term(x) for x in t["a"]]
        if t["form"] == "infix":
            s = a[0] + " " + t["sym"] + " " + a[1]
        elif t["form"] == "prefix":
            s = t["sym"] + (" " if t["sym"][0].isalpha() or a[0].startswith("-") else "") + a[0]
        else:
            return t["sym"] + "(" + ", ".join(a) + ")"
        return "(" + s + ")" if t.get("par") else s
    raise ValueError("term kind " + k)

def atom(a):
    return a["rel"] + "(" + ", ".join(term(x) for x in a["args"]) + ")"

def alts(xs):
    return " ; ".join(", ".join(literal(l) for l in alt) for alt in xs)

def literal(l):
    k = l["k"]
    if k == "atom":
        return atom(l)
    if k == "neg":
        return "!" + atom(l)
    if k == "cmp":
        if l["form"] == "infix":
            return term(l["l"]) + " " + l["sym"] + " " + term(l["r"])
        return l["sym"] + "(" + term(l["l"]) + ", " + term(l["r"]) + ")"
    if k == "not":
        inner = literal(l["l"])
        return "!" + (inner if l["l"]["k"] == "group" or l["l"].get("form") == "call" else "(" + inner + ")")
    if k == "group":
        return "(" + alts(l["alts"]) + ")"
    if k == "true":
        return "true"
    if k == "false":
        return "false"
    raise ValueError("literal kind " + k)

def plan(p):
    if not p:
        return ""
    return "\n .plan " + ", ".join("%d:(%s)" % (v, ",".join(str(i) for i in order)) for v, order in p)

def attrs(a):
    return ", ".join("%s:%s" % (n, t) for n, t in a)

def comp_type(t):
    return t["name"] + ("<" + ", ".join(t["params"]) + ">" if t["params"] else "")

def item(it, ind=""):
    k = it["k"]
    if k == "raw":
        return it["text"]
    if k == "pragma":
        return ".pragma " + quote(it["key"]) + ("".join(" " + quote(v) for v in it["val"]))
    if k == "type":
        f = it["form"]
        if f == "subset":
            return ".type %s <: %s" % (it["name"], it["base"])
        if f == "union":
            return ".type %s = %s" % (it["name"], " | ".join(it["of"]))
        if f == "record":
            return ".type %s = [%s]" % (it["name"], attrs(it["fields"]))
        if f == "adt":
            return ".type %s = %s" % (it["name"], " | ".join("%s {%s}" % (b["name"], attrs(b["fields"])) for b in it["branches"]))
    if k == "functor":
        ps = ", ".join((n + ":" + t) if n else t for n, t in it["params"])
        return ".functor %s(%s):%s%s" % (it["name"], ps, it["ret"], " stateful" if it["stateful"] else "")
    if k == "decl":
        s = ".decl %s(%s)" % (", ".join(it["names"]), attrs(it["attrs"]))
        if it["quals"]:
            s += " " + " ".join(it["quals"])
        if it["choice"]:
            s += " choice-domain " + ", ".join(key[0] if len(key) == 1 else "(" + ", ".join(key) + ")" for key in it["choice"])
        return s
    if k == "delta":
        return ".decl %s = debug_delta(%s)" % (it["name"], it["of"])
    if k == "dir":
        s = ".%s %s" % (it["d"], ", ".join(it["rels"]))
        if it["params"]:
            s += "(" + ", ".join("%s=%s" % (key, quote(v) if style == "str" else v) for key, v, style in it["params"]) + ")"
        return s
    if k == "clause":
        s = ", ".join(atom(h) for h in it["heads"])
        if it["alts"]:
            s += " :- " + alts(it["alts"])
        return s + "." + plan(it["plan"])
    if k == "subsume":
        return atom(it["less"]) + " <= " + atom(it["greater"]) + " :- " + alts(it["alts"]) + "." + plan(it["plan"])
    if k == "comp":
        s = ".comp " + comp_type(it["ty"])
        if it["bases"]:
            s += " : " + ", ".join(comp_type(b) for b in it["bases"])
        return s + " {\n" + "\n".join("  " + item(x) for x in it["items"]) + "\n}"
    if k == "init":
        return ".init %s = %s" % (it["name"], comp_type(it["ty"]))
    if k == "override":
        return ".override " + it["rel"]
    raise ValueError("item kind " + k)

def program(items):
    return "\n".join(item(it) for it in items) + "\n"

# ---- construct kinds of a generator program (vf/gen.py JSON) ----------------------------------------
GEN_FN = {"ADD": "add", "SUB": "sub", "MUL": "mul", "DIV": "div", "MOD": "mod", "EXP": "exp", "NEG": "neg", "MAX": "max",
          "MIN": "min", "BAND": "band", "BOR": "bor", "BXOR": "bxor", "BNOT": "bnot", "BSHIFT_L": "bshl", "BSHIFT_R": "bshr",
          "BSHIFT_R_UNSIGNED": "bshru", "LAND": "land", "LOR": "lor", "LXOR": "lxor", "LNOT": "lnot", "CAT": "cat",
          "STRLEN": "strlen", "SUBSTR": "substr", "I2S": "to_string", "S2I": "to_number", "ORD": "ord"}
GEN_CMP = {"EQ": "eq", "NE": "ne", "LT": "lt", "LE": "le", "GT": "gt", "GE": "ge", "SLT": "lt", "SLE": "le", "SGT": "gt", "SGE": "ge"}

def gen_kinds(P):
    ks = {"decl:plain", "clause:rule", "term:var", "literal:atom"}
    def t(x):
        k = x["k"]
        if k == "fn":
            ks.add("functor:" + GEN_FN.get(x["op"], x["op"].lower()))
            for a in x["a"]:
                t(a)
        elif k in ("rec", "adt"):
            ks.add("term:record" if k == "rec" else "term:adt")
            for a in x["a"]:
                t(a)
        elif k == "num":
            ks.add("term:number")
        elif k == "str":
            ks.add("term:string")
        elif k == "nil":
            ks.add("term:nil")
        elif k == "any":
            ks.add("term:unnamed")
    def lit(l):
        k = l["k"]
        if k in ("atom", "neg"):
            if k == "neg":
                ks.add("literal:negation")
            if not l["args"]:
                ks.add("literal:nullary-atom")
            for a in l["args"]:
                t(a)
        elif k == "cmp":
            ks.add("constraint:" + GEN_CMP[l["op"]]); t(l["l"]); t(l["r"])
        elif k == "agg":
            ks.add("term:aggregate-" + l["op"])
            if l.get("outer"):
                ks.add("term:aggregate-outer-variable")
            if l["tgt"]["k"] != "nil":
                t(l["tgt"])
            for b in l["body"]:
                lit(b)
        elif k == "range":
            ks.add("functor:range")
            for a in l["a"]:
                t(a)
    for c in P.get("src_clauses") or P["clauses"]:
        for h in c.get("heads") or [c["head"]]:
            for a in h["args"]:
                t(a)
        if c.get("heads"):
            ks.add("clause:multiple-heads")
        if c.get("disj"):
            ks.add("clause:disjunction")
        if c.get("plan"):
            ks.add("clause:plan")
        if not c["body"] and not c.get("disj"):
            ks.add("clause:fact")
        for alt in (c.get("disj") or [c["body"]]):
            for l in alt:
                lit(l)
    for td in P.get("types", []):
        ks.add({"rec": "type:record", "adt": "type:adt", "sub": "type:subset"}[td["k"]])
    for r in P["rels"]:
        for q in r.get("quals", []):
            ks.add("decl:" + q)
        if r.get("input"):
            ks.add("directive:input")
        if r.get("output"):
            ks.add("directive:output")
    strata = P.get("strata", [])
    if any(len(s) > 1 for s in strata) or any(any(l["k"] == "atom" and l["rel"] == c["head"]["rel"] for l in c["body"]) for c in P["clauses"]):
        ks.add("clause:recursion")
    return ks

# ---- repairs: the source spelling of a construct whose printed spelling is a listed known finding ------
# Each repair maps the printed text back to text the parser accepts and leaves everything else alone; it is applied
# only when the kind is listed in known_findings.json AND the program uses the kind.  Kinds without a repair mask
# the programs that use them (counted).
_TOK = re.compile(r'"(?:\\.|[^"\\])*"|>>>|>>|<<|<:|<=|>=|!=|\*\*|\^\^|&&|\|\||:-|[&|^~]|!\(|.', re.S)
OP_REPAIR = {"functor:exp": ("**", "^"), "functor:bxor": ("^", " bxor "), "functor:lxor": ("^^", " lxor "),
             "functor:band": ("&", " band "), "functor:land": ("&&", " land "), "functor:bor": ("|", " bor "),
             "functor:lor": ("||", " lor "), "functor:bshl": ("<<", " bshl "), "functor:bshr": (">>", " bshr "),
             "functor:bshru": (">>>", " bshru "), "functor:bnot": ("~", "bnot "), "functor:lnot": ("!(", "lnot (")}

def _repair_ops(text, kinds):
    table = {printed: src for k, (printed, src) in OP_REPAIR.items() if k in kinds}
    if not table:
        return text
    out = []
    for line in text.split("\n"):
        if line.startswith(".type") or line.startswith(".functor") or line.startswith(".pragma") or line.startswith(".comp") \
                or line.startswith(".input") or line.startswith(".output") or line.startswith(".printsize") or line.startswith(".limitsize"):
            out.append(line); continue
        out.append("".join(table.get(tok, tok) for tok in _TOK.findall(line)))
    return "\n".join(out)

def _repair_pragma(text, kinds):
    def fix(m):
        parts = m.group(1).split(" ")
        return ".pragma " + " ".join(quote(p) for p in parts if p != "")
    return re.sub(r"^\.pragma (.*)$", fix, text, flags=re.M)

def _repair_functor_decl(text, kinds):
    return re.sub(r"^(\.functor \w+\()([^)]*)\)", lambda m: m.group(1) + re.sub(r"(^|,):", r"\1", m.group(2)) + ")", text, flags=re.M)

def _repair_override(text, kinds):
    return re.sub(r"^\.([A-Za-z_?][\w?]*(?:,[A-Za-z_?][\w?]*)*)$", lambda m: "\n".join(".override " + r for r in m.group(1).split(",")), text, flags=re.M)

def _repair_negated_call(text, kinds):
    if "constraint:not-match" in kinds:
        text = re.sub(r"\bnot_match\(", "!match(", text)
    if "constraint:not-contains" in kinds:
        text = re.sub(r"\bnot_contains\(", "!contains(", text)
    return text

def _repair_io_qualifier(text, kinds):
    """a deprecated qualifier is printed both as the qualifier and as the directive it stands for: drop that directive"""
    for w in ("input", "output", "printsize"):
        if "decl:qualifier-" + w not in kinds:
            continue
        for m in re.finditer(r"^\.decl ([\w?.]+)\([^()]*\)([^\n]*)$", text, flags=re.M):
            if re.search(r"\b%s\b" % w, m.group(2)):
                text = re.sub(r"^\.%s %s\n\n?" % (w, re.escape(m.group(1))), "", text, count=1, flags=re.M)
    return text

def _repair_subsumption(text, kinds):
    return re.sub(r"@var\d+(?!\w|\()", "_", text)

def _repair_delta(text, kinds):
    return re.sub(r"^\.decl ([\w?.]+)\(\)(.*?) delta_debug\(([\w?.]+)\)", r".decl \1 = debug_delta(\3)\2", text, flags=re.M)

REPAIRS = [(set(OP_REPAIR), _repair_ops),
           ({"constraint:not-match", "constraint:not-contains"}, _repair_negated_call),
           ({"decl:qualifier-input", "decl:qualifier-output", "decl:qualifier-printsize"}, _repair_io_qualifier),
           ({"clause:subsumption-unnamed-variables"}, _repair_subsumption), ({"decl:debug_delta"}, _repair_delta), ({"pragma:key", "pragma:key-value"}, _repair_pragma),
           ({"functor-decl:unnamed-parameters"}, _repair_functor_decl), ({"component:override"}, _repair_override)]
REPAIRABLE = set().union(*[ks for ks, _ in REPAIRS])

def repair(text, kinds):
    """kinds: the listed known-finding kinds the program uses."""
    for ks, fn in REPAIRS:
        if ks & set(kinds):
            text = fn(text, set(kinds))
    return text
