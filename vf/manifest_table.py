# pid -> level category, technique, text, note, design ref
CHECKS = {}
NOT_BUILT = {}
def reg(pid, category, technique, text, note, ref):
    CHECKS[pid] = dict(category=category, technique=technique, text=text, note=note, ref=ref)

EVAL_NOTE = ("Trusted: TLC, spec/Datalog.tla as the meaning of the generated fragment, the python renderer "
             "(JSON AST -> .dl / facts / parsed CSV). Programs come from a seeded generator (not all programs); "
             "EDB spaces are exhaustive over a 3-value/2-symbol domain when <=512 EDBs, sampled beyond.")

reg("C01", "model_checking", "TLC evaluates the stratified least model (Datalog.tla) for every small EDB; real interpreter outputs must equal it",
    "TLC computes Model(P, EDB) from the declarative TLA+ semantics for every EDB of a bounded space for each generated program, "
    "checking model-hood and supportedness of its own result; the real interpreter is run on the same inputs and every output "
    "relation must equal the model as a set of typed tuples, without duplicates.", EVAL_NOTE, "DESIGN.md 9 C01")

def eval_reg(pid, what, extra_note=""):
    reg(pid, "model_checking",
        "TLC computes the stratified least model (spec/Datalog.tla) for every small EDB; real souffle runs in every configuration the property names must reproduce it",
        "One TLC evaluation of Model(P, EDB) per generated program and EDB (exhaustive EDB space over a small domain when <=512 EDBs) "
        "is the configuration-independent oracle; " + what + " Outputs are compared as sets of typed tuples.",
        EVAL_NOTE + " " + extra_note, "DESIGN.md 9 " + pid)

eval_reg("C02", "the same programs are compiled to C++ in single-file (-o) and multi-file (-G + souffle-compile) mode and the executables run on the sampled EDBs.", "The C++ compiler is trusted.")
eval_reg("C03", "interpreter runs at -j2,3,4,8,16 with two seeded perturbation schedules each (hook H1: yields/sleeps at lock primitives) and compiled runs at -j4 and -j1.",
         "OpenMP schedules are perturbed, not enumerated; exhaustive interleaving coverage lives at container level (C25-C31).")
eval_reg("C04", "every switchable pass named by the property is disabled singly and in seeded subsets (--disable-transformers), and inline/no_inline is toggled on non-output relations (variants the checker rejects are skipped). The generator plants the patterns each pass looks for.")
eval_reg("C05", "--magic-transform with *, every non-empty subset of IDB relations (<=4 relations, sampled beyond), magic/no_magic qualifiers and --magic-transform-exclude.")
eval_reg("C06", "each RAM transformer is skipped singly and in seeded subsets through hook H4 (SOUFFLE_VERIF_SKIP_RAM), interpreter at -j4 and sampled compiled runs.")
eval_reg("C07", ".plan directives with seeded permutations for every version of every recursive clause with 2-4 atoms, all nine RamSIPS metrics, and profile-guided auto-scheduling (-p --emit-statistics then -a).")
eval_reg("C08", "btree/brie/btree_delete qualifiers are varied per relation (uniform and mixed), interpreter and compiled; half of the programs use the extreme domain {MIN,-1,MAX}; eqrel relations get closure semantics in the spec.")

COOP_NOTE = ("Trusted: TLC; the cooperative scheduler (harness/coop.h) serialises threads at the SOUFFLE_VERIF yield points, so "
             "C++ memory-model effects (relaxed orderings, torn non-atomic reads) are not explored; g++ -fno-access-control reads private state.")

reg("C30", "model_checking",
    "TLC model-checks spec/OptLockImpl.tla (one action per atomic access) over all interleavings; TLC-generated covering schedules and seeded random schedules are replayed on the real lock and every recorded history is validated by TLC against spec/OptLockAbs.tla",
    "S: every interleaving of 2 clients x <=2 operations and 3 clients x 1 operation (thorough: 3 clients x <=2) of the implementation-shaped spec "
    "satisfies mutual exclusion, validation soundness, abort-restores-version and termination under weak fairness. "
    "R: walks covering every transition of the dumped state graph are executed on the real OptimisticReadWriteLock, comparing version, yield point, "
    "operation index and results after each step (deviation = MODEL-DRIFT, not an alarm). "
    "T: the API events of every real execution (those walks plus 2000 seeded random 2-3 client schedules) are validated as a behaviour of the property-level spec; a rejected history is the VIOLATION.",
    COOP_NOTE + " Aborted write phases may overlap a successful validation (third clause of the property).", "DESIGN.md 9 C30")
eval_reg("C20", "outputs with -p (interpreter -j1/-j4, compiled sampled) must equal the model, and the number souffleprof's rel table reports for every relation is judged by TLC (spec/Judge.tla ProfileOK) against the relation's size in the spec's full interpretation.",
         "Relation size 'at the end of evaluation' is read as the size when the relation's stratum is complete (before expiry clears).")
reg("C23", "model_checking",
    "TLC computes the unlimited stratified model (spec/Datalog.tla); real souffle runs with .limitsize for every limit 0..|Model|+1; TLC judges each real output with the result predicate LimitOK (spec/Judge.tla)",
    "For generated recursive programs and every small EDB the unlimited model comes from TLC; the real interpreter is run with the limit k in {0,1,2,|M|-1,|M|,|M|+1} on "
    "each recursive relation and TLC evaluates the property's three clauses (subset; equal when |M|<k; at least k tuples otherwise) on the real output.",
    EVAL_NOTE + " Only the limited relation itself is judged.", "DESIGN.md 9 C23")
reg("C22", "model_checking",
    "TLC checks spec/AutoInc.tla (atomic fetch-and-add vs split load/store as vacuity witness) over all interleavings; real parallel runs are judged by TLC: projection = model of the program without the autoinc column, autoinc column pairwise distinct",
    "S: uniqueness of handed-out values for 3 workers x 3 uses under every interleaving of the atomic counter; the split variant is required to violate it. "
    "R: generated programs deriving thousands of tuples with autoinc() in parallelisable rules run in the interpreter and compiled at -j1..16 with seeded perturbation; "
    "TLC computes the model of the program without the counter column and judges the counter column of every real run with the uniqueness predicate.",
    EVAL_NOTE + " OpenMP schedules are perturbed, not enumerated.", "DESIGN.md 9 C22")
reg("C10", "model_checking",
    "TLC evaluates the result predicate ChoiceOK (spec/Choice.tla: functional, sound, maximal, other strata recomputed with spec/Datalog.tla's immediate-consequence operator) on the final database of every real run",
    "The contract is a set of admissible outcomes, so the real final database (every relation written out) of each run - interpreter and compiled, -j1..16 with seeded perturbation, "
    "several EDBs per generated program with single/multiple keys, recursive and non-recursive - is judged by TLC against the three clauses of the property; "
    "strata without choice relations must be reproduced exactly from that database.",
    EVAL_NOTE + " 'Derivable' means head instance of a clause over the final database as computed by Datalog.tla's ClauseTP.", "DESIGN.md 9 C10")
reg("C11", "model_checking",
    "TLC computes the model without subsumptive clauses (spec/Datalog.tla) and evaluates the result predicate SubsumeOK (spec/Subsume.tla) on the final database of every real run",
    "For generated program families (bounded shortest path with one or two recursive rules, max/min per key, pareto front with two subsumptive clauses, lexicographic minimum, "
    "non-monotone cost, downstream negation/aggregate over the subsumed relation) and every sampled EDB, TLC judges each real final database (interpreter and compiled, several -j): "
    "no dominated tuple present, only tuples derivable without subsumption, equal to the minimal tuples for the monotone-cost families, strata above recomputed exactly; "
    "the dominance condition is checked to be a strict partial order on the unsubsumed relation.",
    EVAL_NOTE + " Hand-written program families with seeded parameters; one subsumptive relation per program.", "DESIGN.md 9 C11")
reg("C12", "model_checking",
    "TLC computes the least fixpoint of the lattice relation (spec/Lattice.tla: Kleene iteration, joins as constant tables) and judges the final database of every real run",
    "For generated program families (reachability with monotone value transformers, two-column keys, several rules, downstream relations) over four finite lattices "
    "(max chain, min chain, bit-mask union, flat) and several EDBs, TLC judges each real final database (interpreter and compiled, several -j, joins supplied as stateful user functors): "
    "at most one tuple per key and equality with the least fixpoint; other strata recomputed by spec/Datalog.tla.",
    EVAL_NOTE + " Hand-written families; negated atoms with a bound lattice value are not used (souffle matches them on the key only; outside the property).", "DESIGN.md 9 C12")
reg("C09", "model_checking",
    "TLC proves the delta-version scheme on spec/SemiNaive.tla; spec/SemiNaiveOracle.tla derives iteration and INSERT counts from the declarative semantics; spec/Ram.tla executes the real initial RAM (hook H3) and the invariant SemiNaiveOK demands exactly those counts; interpreter traces validated by spec/RamTrace.tla",
    "S: for every rule width N<=4 and every old/delta tagging the scheme 'version i: delta at i, anything before, not-delta after' handles a combination with a new tuple by exactly one version (two wrong schemes must fail). "
    "A: for generated recursive strata (1-3 mutually recursive relations, 1-3 recursive atoms per rule) and all EDBs over a 3-value domain (sampled to 48 per program), the REAL translator output is executed by the RAM-machine spec: "
    "the loop runs exactly as many iterations as the naive fixpoint has stages, every iteration performs exactly the INSERT executions a non-redundant evaluation must (per clause, summed over versions), outputs equal the model. "
    "T: the interpreter's statement traces on the optimised RAM are validated step by step (sizes, EXIT decisions, INSERT counts).",
    EVAL_NOTE + " Rule shapes are a generated family, not all strata; INSERT counts are compared on the unoptimised RAM where every atom is a scan.", "DESIGN.md 9 C09")
reg("C24", "model_checking",
    "TLC evaluates spec/Functors.tla + Word32.tla + Dyadic.tla on boundary-value and seeded random argument vectors of every intrinsic functor and binary constraint (MC_Functors.tla); the same vectors are run through the real interpreter and through compiled code and every result row is compared with the spec's value",
    "TLC enumerates, per FunctorOp/BinaryConstraintOp and arity, the product of boundary-value sets (0, +-1, type min/max, powers of two, shift counts around 32, +-0.0, +-inf, NaN, string/index ends) plus VERIF_SEED-seeded random vectors, "
    "applies the TLA+ value semantics (wrap-around unsigned arithmetic on 16-bit limbs, truncating division, masked shifts, byte-ordered strings, exact dyadic binary32 floats, range generators) and checks algebraic cross-invariants of the spec itself; "
    "every vector inside the defined domain is executed by the interpreter and by souffle -o compiled code and both must reproduce the spec's result; argument transport is checked on every row.",
    "IEEE rounding is NOT modelled: float vectors whose exact result is not a binary32 normal number have no expected value and are only compared interpreter-vs-compiled. Not specified: ORD; MATCH beyond the c . c* .* fragment; "
    "to_number/to_unsigned/to_float on non-canonical text; NaN sign. Undefined cases are excluded by the spec's domain predicate and never run. Trusted: TLC, the C++ compiler, libm exactness on exactly representable results, the python renderer/decoder of values.",
    "DESIGN.md 9 C24")
reg("C19", "model_checking",
    "TLA+ proof-tree validity predicate (spec/Provenance.tla: ValidTree/QueryVerdict over Datalog.tla's model, Functors.tla for constraints) evaluated by TLC (spec/JudgeProof.tla) on every answer of real `souffle -t explain` sessions (interpreter + compiled sample); outputs with/without provenance compared with TLC's model (MC_Datalog)",
    "TLC computes the model and judges each real proof tree (every node instantiates the cited rule, children match the instantiated body as a multiset, negated atoms absent from the model, constraints true, leaves are facts) "
    "and each not-found answer for absent tuples; outputs with and without -t explain must equal the model.",
    "Programs come from a seeded generator restricted to the provenance fragment (atoms, negation, constraints, functors, eqrel, facts, recursion; no aggregates/range/records/ADTs); cited rules are the printed post-transformation rules, "
    "additionally checked sound against the source program's model. Trusted: TLC, the parser of explain's printed rules (syntax only).", "DESIGN.md 9 C19")
reg("C17", "model_checking",
    "TLA+ transducer specification spec/CsvIO.tla (writer, reader, representability of souffle's text formats, record/ADT syntax) model-checked by TLC over an adversarial tuple space (theorem Representable and not KnownGap <=> Read(Write(t)) = t); every vector is replayed into the real writer (program-text facts), file bytes compared with the specification's text, and read back by the real reader with the loaded relation compared inside Datalog",
    "TLC enumerates (format, relation shape, tuple) vectors over an adversarial alphabet (quotes, delimiters, brackets, backslash, newline, tab), extreme numbers, dyadic floats, nested/nil records and ADTs for 15 format/option combinations "
    "(tab, custom and multi-character delimiters, rfc4180, headers, gzip, JSON, SQLite), proves the round-trip theorem on the spec, and every representable tuple must round-trip through the real writer and reader; "
    "unrepresentable tuples are only observed (loud failure or correct round trip expected, silent differences counted).",
    "Interpreter IO only; JSON/SQLite judged as channels (round trip only); floats limited to dyadic values with <=9-digit decimals plus inf/nan tokens; carriage return and non-ASCII bytes not in the alphabet. Trusted: TLC, the glue that renders facts and compares inside Datalog.",
    "DESIGN.md 9 C17")
reg("C18", "model_checking",
    "TLA+ acceptance-language specification spec/NumParse.tla + spec/CsvIO.tla (digit-wise 32-bit range tests, classes accept/reject/either, record/ADT grammar, line splitting) evaluated by TLC over all short strings and boundary templates with one-character mutations per column type and text format; every fact file and token-shaped program constant is given to the real loader/compiler",
    "TLC classifies every string of length <=3 (thorough <=4) over {+,-,0,1,9,x,b,a,.,e,blank} plus about 40 boundary templates (2^31, 2^32, hex/binary, 1e39, nan, inf, unbalanced quotes/brackets) with delete/insert/substitute mutations, "
    "for number, unsigned, float, symbol, record and ADT columns in tab, comma and rfc4180 files and as program-text constants: must-accept vectors must load exactly the specified value (compared inside Datalog against canonical constants), "
    "must-reject vectors must exit 1 naming file and line, don't-care vectors must do one of the two; crashes, aborts, hangs and silently different values are violations.",
    "Don't-care classes (leading blanks, leading +, -0 in unsigned, hex/binary prefixes in number columns, '5.', '.5', subnormals) are stated in spec/NumParse.tla. Float rounding is checked with exact rational arithmetic in the glue (TLC has no floats). Trusted: TLC, glue rendering.",
    "DESIGN.md 9 C18")
reg("C29", "model_checking",
    "TLC model-checks an implementation-shaped spec of DisjointSet (one action per atomic access) in both link variants; the real object is driven by a cooperative scheduler through TLC-generated covering walks, counterexamples, seeded random and exhaustive/bounded-DFS schedules; every history plus observed parent arrays is validated by TLC against the property-level spec UnionFindAbs",
    "All interleavings of 2-3 threads x <=3 ops x <=4 nodes after canonical set-ups of <=2 unions are model-checked (textbook variant: 10.2 M states clean; the variant /repo had before its repair: Acyclic violated). "
    "The real DisjointSet is bound by step-by-step replay conformance, which decides at run time which variant /repo implements, and by trace validation of every real execution against UnionFindAbs.tla: "
    "answers linearizable, arrays acyclic after every step, final partition equals the closure.",
    COOP_NOTE + " Bounded families, not all programs; random/DFS histories are sampled beyond the cap.", "DESIGN.md 9 C29")
reg("C16", "model_checking",
    "TLA+ Flatten (spec/Components.tla, a transcription of ComponentInstantiation.cpp/ComponentLookup) expands each generated component program inside TLC; the unchanged MC_Datalog computes the model of every expanded program for every bounded EDB; the real souffle runs the .comp/.init text and its I.rel.csv outputs are compared with the model",
    "Expected outputs and all expanded names and types come from TLC: seven seeded hierarchy shapes per generator program (single component, inheritance chains with clauses below the declaration, type-parameterised outer components with nested inits, overridable relations replaced through .override, several instantiations, depth-3 nesting, nested component declarations shadowing globals); "
    "interpreter and compiled sample; the expansion is cross-checked by TLC against the original flat program under the intended renaming.",
    EVAL_NOTE + " No component-local types, no IO directives inside components, no multiple inheritance.", "DESIGN.md 9 C16")
reg("C31", "model_checking",
    "TLC model-checks an implementation-shaped spec (one action per SOUFFLE_VERIF scheduling point of ConcurrentFlyweight, ConcurrentInsertOnlyHashMap and MutexConcurrentLanes) refining a property-level interning spec; covering walks are replayed on the real flyweight under a cooperative scheduler; call/return histories of replayed, random and real-thread executions (SymbolTableImpl, SpecializedRecordTable) are validated by TLC",
    "TLC explores all interleavings of 2-3 threads on distinct and shared lanes, with slot and bucket growth triggered at once, 2-3 values and duplicates (about 300k states quick, 2.8M thorough): same value <=> same index, decode(encode(v)) = v, one inserter per value, nil never returned, "
    "quiescent iteration lists each value once, deadlock freedom, termination under weak fairness, refinement of InternAbs. Every transition of the 2-thread graphs is replayed on the real container with state compared after each step; every real history must be accepted by InternAbs.",
    COOP_NOTE + " Larger shapes (up to 8 lanes/threads, 600 values) are covered only by trace validation of random and stress runs. An iterator racing with insertions is outside the property text and not judged.", "DESIGN.md 9 C31")
reg("C25", "model_checking",
    "TLA+ spec SortedSetAbs checked by TLC; implementation-shaped spec BTreeConc (one action per lock-primitive call site of btree::insert) model-checked over all interleavings and replayed as schedules on the real btree_set; call/return histories of bounded-preemption enumerated, random, PCT and real-thread executions plus a query phase validated by TLC against SortedSetAbs",
    "BTreeConc covers 2 threads x <=2 keys (thorough: 3 keys and 3 threads) on trees pre-filled to force root creation, leaf/inner/root split, left rebalance, hints and duplicate races, maxKeys 3: nothing lost, each distinct key reports success exactly once, no lock left, termination under weak fairness; "
    "its walks are replayed on the real tree comparing shape, lock bit and every thread's yield point (0 drift on 72k steps). Every real execution (DFS with <=2/3 preemptions, random, PCT, OpenMP stress with 2-8 threads, node capacity 3 and default) followed by find/contains/bounds/size/iteration/getChunks queries must be accepted by SortedSetAbs.",
    COOP_NOTE + " Field accesses between two lock primitives are not interleaved; systematic enumeration is limited to 2 threads.", "DESIGN.md 9 C25")
reg("C26", "model_checking",
    "Deterministic structural TLA+ spec BTreeSeq (insert and erase case analysis of BTreeDelete.h) enumerated by TLC over keys 1..7 (thorough 1..10); every transition replayed on the real btree_delete_set with shape and result compared; random histories and concurrent-insert executions validated by TLC against SortedSetAbs",
    "TLC enumerates every reachable (shape, operation) pair of the structural spec (3 497 states, 48 958 transitions, 295 shapes for keys 1..7; ShapeOK and StepOK checked) and a covering tour executes each transition on the real tree (one implementation test per transition); "
    "seeded random insert/erase/query histories over small and full 32-bit key ranges and the C25 concurrent-insert machinery on BTreeDelete.h are validated against SortedSetAbs; small-node histories are also replayed by TLC on BTreeSeq for depth 3-4.",
    COOP_NOTE + " Full transition coverage is for maxKeys 3 and depth <= 2; deeper trees and the default block size are covered by seeded random histories only.", "DESIGN.md 9 C26")
reg("C21", "model_checking",
    "TLA+ spec of the embedding API as a state machine (spec/Api.tla; run() = spec/Datalog.tla's evaluation from the current contents) model-checked by TLC; TLC's state graph gives covering call sequences that harness/apidrv.cpp replays on the generated C++ (souffle -g + embedding driver), comparing every return value and the contents after every call with the spec state; plus TLC-computed models of generator programs compared with API insert+run, purge+re-run and runAll from fact files",
    "Exhaustive for 4 (quick) / 8 (thorough) small programs over a 2-tuple universe per input relation and <=4 / <=6 state-changing calls (851 / 3917 spec states, every transition replayed once on the real code: 2133 / 15442 call sequences, contains/size/iterate compared after every call); "
    "for generator programs (48 / 803 EDB cases) API insert+run, purge and re-run, and runAll from fact files are compared with TLC's model.",
    EVAL_NOTE + " Results of runs on stale derived relations are compared but only reported as MODEL-DRIFT (the property is silent there); programs with compiler-introduced relations are excluded from the graph part; eqrel, float and unsigned columns not covered.", "DESIGN.md 9 C21")
reg("C13", "model_checking",
    "TLA+ verdict function (spec/Static.tla: stratification by transitive closure, scoped least-fixpoint groundedness after Ground.cpp/Aggregate.cpp, kind-level typing); TLC (MC_Static) enumerates all 2-relation precedence graphs, 3-relation graphs (sampled quick / all up to renaming thorough), all 4025 clause shapes over a 15-literal alphabet, and generator programs with one injected defect; every program is run by the guarded souffle and its life-cycle trace, exit status and the expected verdict are validated by TLC against Driver/DriverTrace",
    "Exhaustive for the 2-relation graphs with edge labels {none,+,not,agg} and for clause shapes up to 3 body literals (6348 programs in quick); accept => exit 0 without error diagnostic, reject => exit 1 with diagnostic, no output file and no executed statement in the hook trace.",
    "Type verdicts only in unambiguous cases (number vs symbol, record arity). Trusted: TLC, the renderer, hook H7 events. Diagnostic class differing from the spec's reason is MODEL-DRIFT, not a violation.", "DESIGN.md 9 C13")
reg("C14", "exploration",
    "spec/Mutate.tla: TLC enumerates every single token insertion, deletion and substitution (47-token alphabet including raw-byte pseudo-tokens) of each seed program plus -simulate walks of 4 mutations; raw-byte insertions inside tokens; every run's hook trace plus process status is validated by TLC against Driver/DriverTrace, which has no transition for a signal, an assertion, an internal error, a timeout, or status 1 without a diagnostic",
    "Small-scope enumeration around valid programs (13 183 single mutants of 2 seeds + walks + 600 raw-byte insertions in quick; 40 seeds in thorough): souffle must end with a run or with diagnostics and exit status 1, within 20 s CPU.",
    "Not coverage-guided fuzzing; says nothing about memory safety short of a crash. distinct_nontrivial counts distinct mutants that got past the parser.", "DESIGN.md 9 C14")
reg("C15", "exploration",
    "TLA+ catalogue of construct kinds (spec/Syntax.tla); TLC enumerates a probe per kind and variant, all expression trees with <=2 operators over the full operator alphabet (<=3 over a reduced alphabet in thorough) with values from Functors.tla, seeded compositions, plus generator programs with Datalog.tla models; each program goes through real print -> parse -> print fixpoint -> RAM_initial equality (hook H3) -> outputs equal to the TLC value; findings keyed by construct kind",
    "228 probes over 126 construct kinds, 760 expression trees, 40 compositions and 14 generator programs in quick: the printed form must parse, printing must be a fixpoint, the RAM of the printed program must equal the RAM of the original, and outputs must equal the value TLC computed.",
    "30 construct kinds of the tree are listed known findings (programs using them are checked after the listed spelling is restored; string/directive escapes, the unsigned suffix and prefix-under-^ mask them instead); lattices, user-defined aggregates and the preprocessor are outside the catalogue. Equal initial RAM is taken as equal meaning.", "DESIGN.md 9 C15")
reg("C27", "model_checking",
    "TLC model-checks spec/BrieImpl.tla (SparseArray root/first info with odd-pointer lock-out, raiseLevel, cell CAS, bitmap CAS; BITS small) over all interleavings; covering walks are replayed on the real SparseArray/SparseBitMap; call/return histories of Trie<1..4> under the cooperative scheduler and OpenMP stress, plus a query phase, are validated by TLC against spec/TupleSetAbs.tla",
    "All interleavings of 2-3 threads x 2 inserts on small sparse arrays: no lost element, first is the minimum, root info consistent when the version is even; every real history (systematic, random, stress; small, sparse and negative keys) followed by iteration/contains/getBoundaries/bounds/size/partition queries must be accepted by TupleSetAbs.",
    COOP_NOTE + " Negative keys are a recorded known finding (sign extension into the 64-bit index).", "DESIGN.md 9 C27")
reg("C28", "model_checking",
    "TLC enumerates spec/EqRelImpl.tla (union-find forest + stale flag + cached partition) over small element sets; covering call sequences are replayed on the real EquivalenceRelation comparing contains/size/all iteration kinds/partition after each call; sequential, staleness-directed, random and concurrent-insert histories are validated by TLC against spec/EqRelAbs.tla",
    "Every (cache state, operation) transition over elements {MIN,-1,0,MAX} is replayed on the real object; for every pair of partitions of subsets of the domain the history read - insertAll/extendAndInsert - full query battery is judged; concurrent insert phases (1-8 threads) under the cooperative scheduler and as stress are followed by queries; all judged by the closure semantics of EqRelAbs (size = sum of squared class sizes, each pair listed once).",
    COOP_NOTE + " Insert's boolean result under concurrency is a don't-care.", "DESIGN.md 9 C28")
