# pid -> level category, technique, text, note, design ref
CHECKS = {}
NOT_BUILT = {}
def reg(pid, category, technique, text, note, ref):
    CHECKS[pid] = dict(category=category, technique=technique, text=text, note=note, ref=ref)

EVAL_NOTE = ("Trusted: TLC, spec/Datalog.tla as the meaning of the generated fragment, the python renderer "
             "(JSON AST -> .dl / facts / parsed CSV). Programs come from a seeded generator (not all programs); "
             "EDB spaces are exhaustive over a 3-value/2-symbol domain when <=512 EDBs, sampled beyond.")

reg("C01", "model_checking", "TLC evaluates the stratified least model (Datalog.tla) for every small EDB; real interpreter outputs must equal it",
    "TLC computes Model(P, EDB) from the declarative TLA+ semantics for every EDB of a bounded space for each generated program, "
    "checking model-hood and supportedness of its own result; the real interpreter is run on the same inputs and every output "
    "relation must equal the model as a set of typed tuples, without duplicates.", EVAL_NOTE, "DESIGN.md 9 C01")
