"""Glue: the RAM program dumped by hook H3 (JSON) -> the TLA+ value RamProg read by spec/Ram.tla.
Operator enumerators are dumped as integers; their names are read from the enum declarations in /repo's headers at
run time.  Nothing is evaluated here: wrappers without effect on relations are peeled, unsupported constructs are
reported so that the caller can leave the program out (counted in evidence).
Records/ADTs: PackRecord/UnpackRecord are passed on as they are; the type table RamProg.types is copied from the `types`
directive the REAL IO statements carry (what souffle's ReadStream/WriteStream decode with: record name -> field types,
ADT name -> enum flag + branches in branch-id order); a record/ADT attribute keeps its qualifier ("r:Pr", "+:Tr"),
a primitive one is reduced to its kind letter ("i", "u", "s")."""
import json, os, re, threading
from .common import REPO

def _enum(path, name):
    src = open(os.path.join(REPO, path)).read()
    m = re.search(r"enum class %s\s*\{(.*?)\};" % name, src, re.S)
    body = re.sub(r"//[^\n]*", "", m.group(1))
    body = re.sub(r"/\*.*?\*/", "", body, flags=re.S)
    return [x.strip().split("=")[0].strip() for x in body.split(",") if x.strip()]

_cache = None
_cache_lock = threading.Lock()
def enums():
    # called from the checks' worker threads: the table is built whole under a lock and published by one assignment, so
    # that no thread ever sees it half filled (a KeyError 'cmp' from exactly that was a false alarm of C09)
    global _cache
    if _cache is None:
        with _cache_lock:
            if _cache is None:
                _cache = {"functor": _enum("src/FunctorOps.h", "FunctorOp"),
                          "cmp": _enum("src/include/souffle/BinaryConstraintOps.h", "BinaryConstraintOp"),
                          "agg": _enum("src/AggregateOp.h", "AggregateOp")}
    return _cache

SUPPORTED_FUNCTORS = {"ADD", "SUB", "MUL", "DIV", "MOD", "EXP", "NEG", "MAX", "MIN", "BAND", "UBAND", "BOR", "UBOR", "BXOR",
                      "UBXOR", "BNOT", "UBNOT", "BSHIFT_L", "UBSHIFT_L", "BSHIFT_R", "BSHIFT_R_UNSIGNED", "UBSHIFT_R",
                      "UBSHIFT_R_UNSIGNED", "LAND", "ULAND", "LOR", "ULOR", "LXOR", "ULXOR", "LNOT", "ULNOT", "UADD", "USUB",
                      "UMUL", "UDIV", "UMOD", "UMAX", "UMIN", "SMAX", "SMIN", "CAT", "STRLEN", "SUBSTR", "I2S", "S2I",
                      "I2I", "S2S", "U2U", "I2U", "U2I"}
SUPPORTED_CMP = {"EQ", "NE", "LT", "LE", "GT", "GE", "ULT", "ULE", "UGT", "UGE", "SLT", "SLE", "SGT", "SGE"}
SUPPORTED_AGG = {"COUNT", "SUM", "USUM", "MIN", "MAX", "UMIN", "UMAX"}

class Unsupported(Exception):
    pass

def _expr(e):
    k = e["k"]
    if k in ("Signed", "Unsigned"):
        return {"k": k, "v": e["v"]}
    if k == "String":
        return {"k": k, "v": e["v"]}
    if k == "TupleElement":
        return {"k": k, "id": e["id"], "col": e["col"]}
    if k == "Undef":
        return {"k": k}
    if k == "Variable":
        return {"k": k, "name": e["name"]}
    if k == "RelationSize":
        return {"k": k, "rel": e["rel"]}
    if k == "Intrinsic":
        op = enums()["functor"][e["op"]]
        if op not in SUPPORTED_FUNCTORS:
            raise Unsupported("functor " + op)
        return {"k": k, "op": op, "args": [_expr(a) for a in e["args"]]}
    if k == "PackRecord":
        return {"k": k, "args": [_expr(a) for a in e["args"]]}
    raise Unsupported("expression " + k)

def _cond(c):
    k = c["k"]
    if k in ("True", "False"):
        return {"k": k}
    if k == "Conjunction":
        return {"k": k, "l": _cond(c["l"]), "r": _cond(c["r"])}
    if k == "Negation":
        return {"k": k, "c": _cond(c["c"])}
    if k == "Constraint":
        op = enums()["cmp"][c["op"]]
        if op not in SUPPORTED_CMP:
            raise Unsupported("constraint " + op)
        return {"k": k, "op": op, "l": _expr(c["l"]), "r": _expr(c["r"])}
    if k == "ExistenceCheck":
        return {"k": k, "rel": c["rel"], "vals": [_expr(v) for v in c["vals"]]}
    if k == "EmptinessCheck":
        return {"k": k, "rel": c["rel"]}
    raise Unsupported("condition " + k)

def _op(o):
    k = o["k"]
    if k in ("Scan", "IndexScan", "IfExists", "IndexIfExists", "Aggregate", "IndexAggregate"):
        r = {"k": k, "rel": o["rel"], "id": o["id"], "par": o.get("par", False), "body": _op(o["body"])}
        if "lo" in o:
            r["lo"] = [_expr(x) for x in o["lo"]]; r["hi"] = [_expr(x) for x in o["hi"]]
        if "cond" in o:
            r["cond"] = _cond(o["cond"])
        if "agg" in o:
            if o["agg"]["k"] != "Intrinsic":
                raise Unsupported("user-defined aggregator")
            fn = enums()["agg"][o["agg"]["fn"]]
            if fn not in SUPPORTED_AGG:
                raise Unsupported("aggregate " + fn)
            r["agg"] = fn
            r["expr"] = _expr(o["expr"]) if o["expr"]["k"] != "Undef" else {"k": "Undef"}
        return r
    if k == "NestedIntrinsic":
        if o["fn"] != "RANGE":
            raise Unsupported("generator " + o["fn"])
        return {"k": k, "id": o["id"], "args": [_expr(a) for a in o["args"]], "body": _op(o["body"])}
    if k == "UnpackRecord":
        return {"k": k, "id": o["id"], "arity": o["arity"], "expr": _expr(o["expr"]), "body": _op(o["body"])}
    if k in ("Filter", "Break"):
        return {"k": k, "cond": _cond(o["cond"]), "body": _op(o["body"])}
    if k in ("Insert", "Erase"):
        return {"k": k, "rel": o["rel"], "vals": [_expr(v) for v in o["vals"]]}
    if k == "GuardedInsert":
        return {"k": k, "rel": o["rel"], "vals": [_expr(v) for v in o["vals"]], "cond": _cond(o["cond"])}
    raise Unsupported("operation " + k)

def _stmt(s):
    """returns a statement or None (dropped)"""
    k = s["k"]
    if k in ("Sequence", "Parallel"):
        sub = [x for x in (_stmt(c) for c in s["stmts"]) if x is not None]
        return {"k": "Seq", "sid": s["sid"], "stmts": sub}
    if k == "DebugInfo":
        b = _stmt(s["body"])
        m = re.search(r"\[(\d+):\d+-\d+:\d+\]\s*$", s.get("msg", ""))
        if b is not None and b["k"] == "Query" and m:
            b["line"] = int(m.group(1))      # source line of the clause this query was generated from
        return b
    if k in ("LogTimer", "LogRelationTimer"):
        return _stmt(s["body"])
    if k in ("LogSize", "EstimateJoinSize"):
        return None
    if k == "Loop":
        b = _stmt(s["body"])
        return {"k": k, "sid": s["sid"], "body": b if b is not None else {"k": "Seq", "sid": -1, "stmts": []}}
    if k == "Exit":
        return {"k": k, "sid": s["sid"], "cond": _cond(s["cond"])}
    if k == "Query":
        return {"k": k, "sid": s["sid"], "op": _op(s["op"])}
    if k == "Clear":
        return {"k": k, "sid": s["sid"], "rel": s["rel"]}
    if k == "Swap":
        return {"k": k, "sid": s["sid"], "a": s["a"], "b": s["b"]}
    if k == "MergeExtend":
        return {"k": k, "sid": s["sid"], "src": s["src"], "trg": s["trg"]}
    if k == "IO":
        return {"k": k, "sid": s["sid"], "rel": s["rel"], "op": s["directives"].get("operation", "?")}
    if k == "Call":
        return {"k": k, "sid": s["sid"], "name": s["name"]}
    if k == "Assign":
        return {"k": k, "sid": s["sid"], "var": s["var"], "value": _expr(s["value"])}
    raise Unsupported("statement " + k)

def _io_types(j):
    """the `types` directive of the first IO statement (all IO statements of a program carry the same ADT/record tables)"""
    found = []
    def walk(n):
        if found:
            return
        if isinstance(n, dict):
            if n.get("k") == "IO" and "types" in n.get("directives", {}):
                found.append(json.loads(n["directives"]["types"])); return
            for v in n.values():
                walk(v)
        elif isinstance(n, list):
            for v in n:
                walk(v)
    walk(j["main"]); walk(j["subroutines"])
    return found[0] if found else {}

class _Types:
    """the part of the type table reachable from the relations' attributes"""
    def __init__(self, io):
        self.io_records = io.get("records", {}); self.io_adts = io.get("ADTs", {})
        self.records = {}; self.adts = {}
    def attr(self, t):
        """attribute type string of the dump ("i:number", "r:Pr", "+:Tr") -> attribute type of RamProg"""
        kind = t.split(":")[0]
        if kind in ("i", "u", "s"):
            return kind
        if kind == "r":
            if t not in self.records:
                info = self.io_records.get(t)
                if info is None:
                    raise Unsupported("record type %s without IO type information" % t)
                self.records[t] = None          # (recursive types)
                self.records[t] = [self.attr(x) for x in info["types"]]
            return t
        if kind == "+":
            if t not in self.adts:
                info = self.io_adts.get(t)
                if info is None:
                    raise Unsupported("ADT %s without IO type information" % t)
                self.adts[t] = None
                brs = [{"name": b["name"], "types": [self.attr(x) for x in b["types"]]} for b in info["branches"]]
                # the payload of a one-argument branch is stored unboxed next to the branch id ([id, arg]) and the
                # translator compares it with constants BEFORE the branch id is tested: a symbol payload would meet the
                # numbers of the other branches there, which TLC cannot compare with a string
                if not info["enum"] and any(b["types"] == ["s"] for b in brs):
                    raise Unsupported("ADT branch with a single symbol argument")
                self.adts[t] = {"enum": bool(info["enum"]), "branches": brs}
            return t
        raise Unsupported("attribute type " + kind)

def convert(path):
    """-> RamProg value (python dict).  Raises Unsupported with the first construct outside spec/Ram.tla."""
    j = json.load(open(path))
    rels = []
    types = _Types(_io_types(j))
    for r in j["relations"]:
        ts = [types.attr(t) for t in r["attrTypes"]]
        if r["aux"] != 0:
            raise Unsupported("auxiliary attributes (provenance)")
        rels.append({"name": r["name"], "arity": r["arity"], "repr": r["repr"], "attrTypes": ts})
    main = _stmt(j["main"])
    subs = {}
    for name, body in j["subroutines"].items():
        b = _stmt(body)
        # the engine registers subroutine X as "stratum_X" (Engine.cpp generateIR) and CALL statements use that name
        name = "stratum_" + name
        subs[name] = b if b is not None else {"k": "Seq", "sid": -1, "stmts": []}
    return {"relations": rels, "main": main, "subroutines": subs, "types": {"records": types.records, "adts": types.adts}}

def stored_relations(RP):
    """relations written by an output/printsize IO statement (generated C++ never clears them)"""
    out = []
    def walk(s):
        if s["k"] == "Seq":
            for c in s["stmts"]:
                walk(c)
        elif s["k"] == "Loop":
            walk(s["body"])
        elif s["k"] == "IO" and s["op"] in ("output", "printsize") and s["rel"] not in out:
            out.append(s["rel"])
    walk(RP["main"])
    for b in RP["subroutines"].values():
        walk(b)
    return out
