"""Driver life-cycle traces (hook H7: SOUFFLE_VERIF_TRACE) of souffle invocations.
Glue only: runs the guarded souffle with a time limit and closed stdin, reads the recorded events, run-length encodes
them, appends the process status as a final Exit event, and hands the traces to TLC (spec/DriverTrace.tla).
Whether a run is acceptable is decided by TLC (Driver!Exit / the absence of a matching transition), not here."""
import json, os, re, time, threading, concurrent.futures as cf
from . import build, tracecheck, tlc
from .common import run, SPEC, NCPU, canon, write_mc, log

# texts that tell an internal failure from a user-level diagnostic (observations handed to the spec as a flag)
INTERNAL = re.compile(r"Assertion [`'].*failed|internal error|Segmentation (violation|fault)|Abort signal|"
                      r"Illegal instruction signal|terminate called|std::bad_alloc|fatal error|stack smashing|"
                      r"double free|free\(\): invalid|malloc\(\): |pure virtual|Sanitizer", re.I)
DIAG = re.compile(r"[Ee]rror")
PHASE_FIELDS = ("e", "p", "errors", "ok")
TIME_LIMIT = 20

# crashes of the compiler that are genuine, recorded defects of /repo (known_findings.json), by exact stderr signature;
# evalcore.KNOWN_CRASHES holds the ones shared with the evaluation properties
OWN_KNOWN = {"mutual-aggregate-cyclic-dependency-fatal":
             lambda err: "\ncyclic dependency\n" in ("\n" + err) and "fatal error; see std err" in err,
             "underscore-functor-argument-assert":
             lambda err: "variable not grounded: +underscore_" in err and '"variable not grounded" && false' in err,
             "preprocessor-failure-uncaught-exception":
             lambda err: "Pre-processor command failed" in err and "what():  Failed to read input" in err}

def known_crash(res, pid, err):
    """True when stderr carries the signature of a recorded compiler crash (reported as KNOWN-FINDING when listed for pid)."""
    from . import evalcore, known
    if evalcore.known_crash(res, pid, err):
        return True
    for fid, sig in OWN_KNOWN.items():
        if sig(err or ""):
            kf = known.load()
            if known.is_listed(kf, pid, fid):
                msg = known.describe(kf, pid, fid)
                if msg not in res.known:
                    res.known.append(msg)
                res.count("known_finding_hits")
                return True
    return False

class Run:
    __slots__ = ("label", "dir", "rc", "stdout", "stderr", "events", "outs", "secs", "parsed_errors", "raw_events", "retried", "infra")

def read_trace(path):
    evs = []
    if os.path.exists(path):
        with open(path, "rb") as f:
            for line in f.read().decode("utf-8", "replace").splitlines():
                try:
                    evs.append(json.loads(line))
                except ValueError:
                    evs.append({"e": "Garbled"})
    return evs

def project(raw):
    """run-length encoding: consecutive AstTransformer events -> one event with n; consecutive interpreter statement
    events -> one Stmt event with n; Phase / ExitIfErrors events are kept."""
    out = []
    for ev in raw:
        k = ev.get("e")
        if k in ("Phase", "ExitIfErrors"):
            out.append({f: ev[f] for f in PHASE_FIELDS if f in ev})
        elif k == "AstTransformer":
            if out and out[-1]["e"] == "AstTransformer":
                out[-1]["n"] += 1
            else:
                out.append({"e": "AstTransformer", "n": 1})
        elif k == "Garbled":
            out.append({"e": "Garbled"})
        else:
            if out and out[-1]["e"] == "Stmt":
                out[-1]["n"] += 1
            else:
                out.append({"e": "Stmt", "n": 1})
    return out

def exit_event(rc, stderr, outs, expect="any"):
    timeout = rc == -999 or rc == -24 or rc == 128 + 24        # wall-clock limit or CPU-time limit (SIGXCPU)
    sig = -rc if (rc < 0 and not timeout) else (rc - 128 if rc >= 128 else 0)
    return {"e": "Exit", "code": rc if 0 <= rc < 128 else -1, "signal": sig, "timeout": timeout,
            "diag": bool(DIAG.search(stderr)), "internal": bool(INTERNAL.search(stderr)), "outs": len(outs), "expect": expect}

def run_souffle(label, d, text=None, dl=None, args=(), facts=None, timeout=TIME_LIMIT, souffle=None, expect="any"):
    """One invocation in its own directory d (program d/p.dl unless dl is given, outputs d/out, trace d/trace.ndjson).
    Time limit: `timeout` seconds of CPU time (ulimit -t, inherited by the preprocessor) and of wall-clock time; a run that
    exceeds the wall-clock limit only is repeated once with a generous wall-clock limit (the machine may be loaded),
    so that only a run that burns its CPU budget or blocks for a long time counts as a hang."""
    os.makedirs(os.path.join(d, "out"), exist_ok=True)
    if dl is None:
        dl = os.path.join(d, "p.dl")
        with open(dl, "wb") as f:
            f.write(text if isinstance(text, bytes) else text.encode("utf-8", "surrogateescape"))
    tr = os.path.join(d, "trace.ndjson")
    cmd = ["/bin/sh", "-c", 'ulimit -t %d; exec "$@"' % timeout, "sh", souffle or build.SOUFFLE, "-D", os.path.join(d, "out")] \
        + (["-F", facts] if facts else []) + list(args) + [dl]
    retried = False; exec_tries = 0
    wall = timeout
    while True:
        if os.path.exists(tr):
            os.remove(tr)
        for f in os.listdir(os.path.join(d, "out")):
            os.remove(os.path.join(d, "out", f))
        t0 = time.time()
        rc, out, err = run(cmd, timeout=wall, env={"SOUFFLE_VERIF_TRACE": tr}, cwd=d)
        if rc in (126, 127) and err.startswith("sh: ") and exec_tries < 60:
            exec_tries += 1; time.sleep(3)          # the shared binary is being relinked by a concurrent check
            continue
        if rc == -999 and not retried and os.getloadavg()[0] > NCPU / 2:
            retried = True; wall = 12 * timeout
            continue
        break
    r = Run(); r.label = label; r.dir = d; r.rc = rc; r.stdout = out; r.stderr = err; r.secs = time.time() - t0
    r.retried = retried
    r.infra = rc in (126, 127) and err.startswith("sh: ")     # souffle could not be started at all
    r.outs = sorted(os.listdir(os.path.join(d, "out")))
    raw = read_trace(tr)
    r.raw_events = len(raw)
    r.parsed_errors = next((e.get("errors") for e in raw if e.get("e") == "Phase" and e.get("p") == "Parsed"), None)
    r.events = project(raw) + [exit_event(rc, err, r.outs, expect)]
    return r

def run_many(jobs, workers=None):
    """jobs: list of kwargs for run_souffle; returns list of Run in order."""
    with cf.ThreadPoolExecutor(workers or NCPU) as ex:
        return list(ex.map(lambda kw: run_souffle(**kw), jobs))

def describe(r):
    ev = r.events[-1]
    return "exit code=%s signal=%s timeout=%s diag=%s internal=%s outs=%s; trace %s; stderr: %s" % (
        ev["code"], ev["signal"], ev["timeout"], ev["diag"], ev["internal"], ev["outs"],
        json.dumps(r.events[:-1])[:400], r.stderr[-500:])

def validate(runs, wd, name, res, chunk_events=40000, max_rejects=12, parallel=4):
    """Validate the life-cycle trace of every run against spec/DriverTrace.tla.  Identical traces are given to TLC once.
    Returns {label: True|False|None}; None = not validated (infrastructure)."""
    distinct = {}
    for r in runs:
        distinct.setdefault(canon(r.events), []).append(r)
    keys = list(distinct)
    verdict = {}
    chunks, cur, n = [], [], 0
    for k in keys:
        ln = len(distinct[k][0].events) + 1
        if cur and n + ln > chunk_events:
            chunks.append(cur); cur, n = [], 0
        cur.append(k); n += ln
    if cur:
        chunks.append(cur)
    lock = threading.Lock()
    stats = {"events": 0, "accepted": 0, "rejected": 0, "tlc": []}
    def do_chunk(ci):
        todo = list(chunks[ci]); rejects = 0; rnd = 0
        while todo:
            events, owner = [], []
            for k in todo:
                if events:
                    events.append({"e": "Reset"}); owner.append(k)
                for ev in distinct[k][0].events:
                    events.append(ev); owner.append(k)
            ok, consumed, r = tracecheck.validate("DriverTrace", events, wd, "%s_c%d_r%d" % (name, ci, rnd),
                                                  constants="CONSTANT MaxErrors = 0")
            rnd += 1
            with lock:
                stats["tlc"].append(r)
            if ok is True:
                with lock:
                    stats["events"] += len(events); stats["accepted"] += len(todo)
                for k in todo:
                    verdict[k] = True
                return
            if ok is None or consumed >= len(events):
                res.infra_errors.append("DriverTrace validation failed: %s" % ((r["error"] or "?")[-600:]))
                for k in todo:
                    verdict[k] = None
                return
            bad = owner[consumed]
            verdict[bad] = False; rejects += 1
            idx = todo.index(bad)
            with lock:
                stats["rejected"] += 1; stats["accepted"] += idx
                stats["events"] += consumed
            for k in todo[:idx]:
                verdict[k] = True
            todo = todo[idx + 1:]
            if rejects >= max_rejects:
                for k in todo:
                    verdict[k] = None
                res.count("driver_traces_not_validated_after_%d_rejections" % max_rejects, len(todo))
                return
    with cf.ThreadPoolExecutor(parallel) as ex:
        list(ex.map(do_chunk, range(len(chunks))))
    for r in stats["tlc"]:
        res.add_tlc(r)
    res.count("driver_runs", len(runs))
    res.count("driver_traces_distinct", len(keys))
    res.count("driver_trace_events_validated", stats["events"])
    res.cov["traces_validated_against_impl"] += sum(len(distinct[k]) for k in keys if verdict.get(k) is True)
    return {r.label: verdict.get(canon(r.events)) for r in runs}

def check_spec(wd, res):
    """(S) model-check Driver.tla itself: invariants + phases only advance, and errors ~> exit 1 under fairness."""
    d = os.path.join(wd, "driver_mc"); os.makedirs(d, exist_ok=True)
    inv = "INVARIANT TypeOK NoExecAfterErrors ErrorsExitOne ExitCodes NoTranslateWithErrors\nPROPERTY PhasesAdvance\n"
    cfgs = {"DriverSafety": "SPECIFICATION Spec\nCONSTANT MaxErrors = 2\n%sCHECK_DEADLOCK FALSE\n" % inv,
            "DriverLive": "SPECIFICATION FairSpec\nCONSTANT MaxErrors = 2\nPROPERTY ErrorsLeadToExit\nCHECK_DEADLOCK FALSE\n"}
    okall = True
    for n, text in cfgs.items():
        cfg = os.path.join(d, n + ".cfg")
        with open(cfg, "w") as f:
            f.write(text)
        r = tlc.run_tlc(os.path.join(SPEC, "Driver.tla"), cfg, d, workers=2, timeout=300, extra=("-coverage", "1"))
        if not r["ok"]:
            okall = False
            res.infra_errors.append("Driver.tla (%s): %s" % (n, r["violated"] or r["error"]))
        else:
            res.add_tlc(r)
            res.cov["driver_spec_states_" + n] = r["distinct"]
            if n == "DriverSafety":
                cov = tlc.coverage_counts(r["out"])
                never = sorted(a for a, (taken, _) in cov.items() if taken == 0 and a not in ("Init", "Stmt"))     # Stmt leaves the state unchanged
                if never:
                    res.infra_errors.append("Driver.tla: actions never taken (vacuity): %s" % never)
    return okall
