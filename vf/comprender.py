"""Concrete syntax of a component program (the CP JSON of spec/Components.tla) as souffle text with .comp / .init.
Declarations are printed as given: no name is expanded, no clause is moved, nothing is inherited or dropped here."""
from . import render

def tyname(t):
    """attribute type / actual parameter: a type code of vf/gen.py ("i", "s", "r:Pr", "a:Tr") or a plain name
    (type parameter, component name)."""
    if t in render.TYPE_DECL:
        return render.TYPE_DECL[t]
    return t.split(":", 1)[1] if ":" in t else t

def targs(args):
    return ("<" + ", ".join(tyname(a) for a in args) + ">") if args else ""

def decl(r, ind=""):
    quals = list(r.get("quals", []))
    if r.get("overridable"):
        quals.append("overridable")
    attrs = ", ".join("a%d:%s" % (i, tyname(t)) for i, t in enumerate(r["types"]))
    out = [ind + ".decl %s(%s)%s" % (r["name"], attrs, (" " + " ".join(quals)) if quals else "")]
    if r.get("input"):
        out.append(ind + ".input " + r["name"])
    if r.get("output"):
        out.append(ind + ".output " + r["name"])
    return out

def init(i, ind=""):
    return ind + ".init %s = %s%s" % (i["inst"], i["comp"], targs(i["args"]))

def component(CP, idx, ind=""):
    """idx: 1-based index into CP["comps"] (as in the spec); declarations nested in it are printed inside."""
    c = CP["comps"][idx - 1]
    head = ind + ".comp %s%s" % (c["name"], ("<" + ", ".join(c["params"]) + ">") if c["params"] else "")
    if c["bases"]:
        head += " : " + ", ".join(b["name"] + targs(b["args"]) for b in c["bases"])
    out = [head + " {"]
    i2 = ind + "  "
    for j, d in enumerate(CP["comps"]):
        if d["encl"] == idx:
            out += component(CP, j + 1, i2)
    for i in c["inits"]:
        out.append(init(i, i2))
    for r in c["rels"]:
        out += decl(r, i2)
    for o in c["overrides"]:
        out.append(i2 + ".override " + o)
    for cl in c["clauses"]:
        out.append(i2 + render.clause(cl))
    out.append(ind + "}")
    return out

def program(CP):
    out = [render.program({"types": CP.get("types", []), "rels": [], "clauses": []}).rstrip("\n")] if CP.get("types") else []
    for r in CP["rels"]:
        out += decl(r)
    for cl in CP["clauses"]:
        out.append(render.clause(cl))
    for j, d in enumerate(CP["comps"]):
        if d["encl"] == 0:
            out += component(CP, j + 1)
    for i in CP["inits"]:
        out.append(init(i))
    return "\n".join(out) + "\n"
