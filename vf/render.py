"""Concrete syntax: program JSON -> .dl text, EDB -> fact files, output files -> canonical JSON values.
This is the only place souffle syntax is produced or consumed."""
import os, re

TYPE_DECL = {"i": "number", "u": "unsigned", "f": "float", "s": "symbol"}
INFIX = {"ADD": "+", "SUB": "-", "MUL": "*", "DIV": "/", "MOD": "%", "EXP": "^",
         "UADD": "+", "USUB": "-", "UMUL": "*", "UDIV": "/", "UMOD": "%", "UEXP": "^",
         "FADD": "+", "FSUB": "-", "FMUL": "*", "FDIV": "/", "FEXP": "^",
         "BAND": "band", "BOR": "bor", "BXOR": "bxor", "BSHIFT_L": "bshl", "BSHIFT_R": "bshr",
         "BSHIFT_R_UNSIGNED": "bshru", "LAND": "land", "LOR": "lor", "LXOR": "lxor",
         "UBAND": "band", "UBOR": "bor", "UBXOR": "bxor", "UBSHIFT_L": "bshl", "UBSHIFT_R": "bshr",
         "UBSHIFT_R_UNSIGNED": "bshru", "ULAND": "land", "ULOR": "lor", "ULXOR": "lxor"}
PREFIX = {"NEG": "-", "FNEG": "-", "BNOT": "bnot", "UBNOT": "bnot", "LNOT": "lnot", "ULNOT": "lnot"}
CALL = {"MAX": "max", "MIN": "min", "UMAX": "max", "UMIN": "min", "FMAX": "max", "FMIN": "min",
        "SMAX": "max", "SMIN": "min", "CAT": "cat", "STRLEN": "strlen", "SUBSTR": "substr", "ORD": "ord",
        "I2S": "to_string", "U2S": "to_string", "F2S": "to_string", "S2I": "to_number", "S2U": "to_unsigned",
        "S2F": "to_float", "I2U": "itou", "U2I": "utoi", "I2F": "itof", "F2I": "ftoi", "U2F": "utof", "F2U": "ftou"}
CMP = {"EQ": "=", "NE": "!=", "LT": "<", "LE": "<=", "GT": ">", "GE": ">=",
       "ULT": "<", "ULE": "<=", "UGT": ">", "UGE": ">=", "SLT": "<", "SLE": "<=", "SGT": ">", "SGE": ">=",
       "FLT": "<", "FLE": "<=", "FGT": ">", "FGE": ">=", "FEQ": "=", "FNE": "!="}

def typename(t):
    if t in TYPE_DECL:
        return TYPE_DECL[t]
    return t.split(":", 1)[1]          # "r:Pair" / "a:Tree" / "t:Sub" (subset type)

def quote(s):
    return '"' + s.replace("\\", "\\\\").replace('"', '\\"').replace("\n", "\\n").replace("\t", "\\t") + '"'

def term(t):
    k = t["k"]
    if k == "var":
        return t["n"]
    if k == "any":
        return "_"
    if k == "num":
        v = t["v"]
        if t.get("ty") == "u":
            return str(v if v >= 0 else v + (1 << 32)) + "u" if False else str(v if v >= 0 else v + (1 << 32))
        return str(v) if v >= 0 else "(-%d)" % (-v)
    if k == "str":
        return quote(t["v"])
    if k == "nil":
        return "nil"
    if k == "rec":
        return "[" + ", ".join(term(a) for a in t["a"]) + "]"
    if k == "adt":
        return "$" + t["b"] + "(" + ", ".join(term(a) for a in t["a"]) + ")"
    if k == "fn":
        op = t["op"]; a = [term(x) for x in t["a"]]
        if op in INFIX:
            return "(" + a[0] + " " + INFIX[op] + " " + a[1] + ")"
        if op in PREFIX:
            return "(" + PREFIX[op] + ("" if PREFIX[op] == "-" else " ") + "(" + a[0] + "))"
        if op in CALL:
            return CALL[op] + "(" + ", ".join(a) + ")"
        if op == "AS":
            return "as(" + a[0] + ", " + t["to"] + ")"
        raise ValueError("functor " + op)
    if k == "autoinc":
        return "autoinc()"
    raise ValueError("term kind " + k)

def atom(a):
    return a["rel"] + "(" + ", ".join(term(x) for x in a["args"]) + ")"

def literal(l):
    k = l["k"]
    if k == "atom":
        return atom(l)
    if k == "neg":
        return "!" + atom(l)
    if k == "cmp":
        return term(l["l"]) + " " + CMP[l["op"]] + " " + term(l["r"])
    if k == "agg":
        body = ", ".join(literal(x) for x in l["body"])
        if l["op"] == "count":
            return "%s = count : { %s }" % (term(l["res"]), body)
        return "%s = %s %s : { %s }" % (term(l["res"]), l["op"], term(l["tgt"]), body)
    if k == "range":
        return "%s = range(%s)" % (term(l["res"]), ", ".join(term(x) for x in l["a"]))
    raise ValueError("literal kind " + k)

def clause(c):
    if c.get("heads"):          # multiple heads, rendered as written
        h = ", ".join(atom(x) for x in c["heads"])
    else:
        h = atom(c["head"])
    if c.get("disj"):           # list of alternative bodies -> `;`
        b = " ; ".join(", ".join(literal(l) for l in alt) for alt in c["disj"])
        return h + " :- " + b + "."
    if not c["body"]:
        return h + "."
    s = h + " :- " + ", ".join(literal(l) for l in c["body"]) + "."
    if c.get("plan"):
        s += "\n  .plan " + ", ".join("%d:(%s)" % (v, ",".join(str(i) for i in perm)) for v, perm in c["plan"])
    return s

def program(P, io=True, extra_directives=(), src_clauses=None):
    """src_clauses: optional list of 'source-shape' clauses (with disjunctions / multiple heads); defaults to P.clauses."""
    out = []
    for td in P.get("types", []):
        if td["k"] == "rec":
            out.append(".type %s = [%s]" % (td["name"], ", ".join("%s:%s" % (f, typename(t)) for f, t in td["fields"])))
        elif td["k"] == "adt":
            out.append(".type %s = %s" % (td["name"], " | ".join(
                "%s {%s}" % (b["name"], ", ".join("%s:%s" % (f, typename(t)) for f, t in b["fields"])) for b in td["branches"])))
        elif td["k"] == "sub":
            out.append(".type %s <: %s" % (td["name"], typename(td["base"])))
    for r in P["rels"]:
        quals = " ".join(r.get("quals", []))
        attrs = ", ".join("a%d:%s" % (i, typename(t)) for i, t in enumerate(r["types"]))
        extra = ""
        if r.get("choice"):
            extra = " choice-domain " + ", ".join(
                ("(" + ", ".join("a%d" % i for i in key) + ")") if len(key) > 1 else "a%d" % key[0] for key in r["choice"])
        out.append(".decl %s(%s)%s%s" % (r["name"], attrs, (" " + quals) if quals else "", extra))
        if io and r.get("input"):
            out.append(".input %s%s" % (r["name"], r.get("iodir_in", "")))
        if io and r.get("output"):
            out.append(".output %s%s" % (r["name"], r.get("iodir_out", "")))
        if r.get("limitsize") is not None:
            out.append(".limitsize %s(n=%d)" % (r["name"], r["limitsize"]))
    for d in extra_directives:
        out.append(d)
    for c in (src_clauses if src_clauses is not None else P.get("src_clauses") or P["clauses"]):
        out.append(clause(c))
    for sc in P.get("subsume", []):     # subsumptive clauses: rel(a1) <= rel(a2) :- body.
        out.append("%s(%s) <= %s(%s) :- %s." % (sc["rel"], ", ".join(term(a) for a in sc["a1"]), sc["rel"],
                                                 ", ".join(term(a) for a in sc["a2"]), ", ".join(literal(l) for l in sc["body"])))
    return "\n".join(out) + "\n"

# ---- values <-> fact-file text -------------------------------------------------
def value_text(v, ty="i"):
    if isinstance(v, bool):
        raise ValueError
    if isinstance(v, int):
        if ty == "u" and v < 0:
            return str(v + (1 << 32))
        return str(v)
    if isinstance(v, str):
        return v
    if isinstance(v, (list, tuple)):
        if v[0] == "nil":
            return "nil"
        if v[0] == "rec":
            return "[" + ", ".join(value_text(x, (ty if isinstance(ty, (list, tuple)) else [None] * len(v))[i]
                                             if isinstance(ty, (list, tuple)) else "i") for i, x in enumerate(v[1:])) + "]"
        if v[0] == "adt":
            return "$" + v[1] + ("(" + ", ".join(value_text(x) for x in v[2:]) + ")" if len(v) > 2 else "")
    raise ValueError("value %r" % (v,))

def write_facts(P, edb, d):
    os.makedirs(d, exist_ok=True)
    for r in P["rels"]:
        if r.get("input"):
            with open(os.path.join(d, r["name"] + ".facts"), "w") as f:
                for t in edb.get(r["name"], []):
                    f.write("\t".join(value_text(v, r["types"][i]) for i, v in enumerate(t)) + "\n")

class ParseError(Exception):
    pass

def _parse_value(s, pos, ty, P):
    """Parse one value of type ty from s at pos (record/ADT text syntax); returns (value, newpos)."""
    if ty in ("i", "u", "f"):
        m = re.compile(r"-?\d+(\.\d+)?([eE][-+]?\d+)?|nan|-?inf").match(s, pos)
        if not m:
            raise ParseError("number expected at %d in %r" % (pos, s))
        txt = m.group(0)
        if ty == "f":
            return txt, m.end()
        v = int(txt)
        if ty == "u" and v >= (1 << 31):
            v -= (1 << 32)
        return v, m.end()
    if ty == "s":
        # symbols inside records extend to the next , ] or )
        m = re.compile(r"[^,\]\)]*").match(s, pos)
        return m.group(0), m.end()
    td = next(t for t in P.get("types", []) if t["name"] == ty.split(":", 1)[1])
    if td["k"] == "sub":
        return _parse_value(s, pos, td["base"], P)
    if td["k"] == "rec":
        if s.startswith("nil", pos):
            return ["nil"], pos + 3
        if s[pos] != "[":
            raise ParseError("[ expected at %d in %r" % (pos, s))
        pos += 1; vals = []
        for i, (f, ft) in enumerate(td["fields"]):
            if i:
                if not s.startswith(", ", pos):
                    raise ParseError("', ' expected at %d in %r" % (pos, s))
                pos += 2
            v, pos = _parse_value(s, pos, ft, P); vals.append(v)
        if s[pos] != "]":
            raise ParseError("] expected at %d in %r" % (pos, s))
        return ["rec"] + vals, pos + 1
    if td["k"] == "adt":
        if s[pos] != "$":
            raise ParseError("$ expected")
        m = re.compile(r"\$(\w+)").match(s, pos)
        b = next(x for x in td["branches"] if x["name"] == m.group(1))
        pos = m.end(); vals = []
        if b["fields"]:
            pos += 1
            for i, (f, ft) in enumerate(b["fields"]):
                if i:
                    pos += 2
                v, pos = _parse_value(s, pos, ft, P); vals.append(v)
            pos += 1
        return ["adt", b["name"]] + vals, pos
    raise ParseError("type " + ty)

def parse_field(txt, ty, P):
    if ty == "s":
        return txt
    v, pos = _parse_value(txt, 0, ty, P)
    if pos != len(txt):
        raise ParseError("trailing text in %r" % txt)
    return v

def read_output(P, rel, path):
    """Returns (list of tuples in file order). Nullary relations print '()' when true."""
    r = next(x for x in P["rels"] if x["name"] == rel)
    rows = []
    with open(path, encoding="utf-8", errors="surrogateescape") as f:
        lines = f.read().split("\n")
        if lines and lines[-1] == "":
            lines.pop()            # the terminating newline; an empty line elsewhere is the empty symbol
        for line in lines:
            if line == "" and r["arity"] != 1:
                continue
            if r["arity"] == 0:
                if line.strip() == "()":
                    rows.append([])
                continue
            parts = line.split("\t")
            if len(parts) != r["arity"]:
                raise ParseError("arity mismatch in %s: %r" % (path, line))
            rows.append([parse_field(parts[i], r["types"][i], P) for i in range(r["arity"])])
    return rows
