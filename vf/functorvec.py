"""C24 glue: operator table (souffle surface syntax per FunctorOp / BinaryConstraintOp), seeded random argument
vectors (inputs only), rendering of argument values into program text / fact files, decoding of output files.
No expected result is computed here: results come from TLC (spec/MC_Functors.tla)."""
import math, os, random, struct
from fractions import Fraction

MIN = -(1 << 31); MAX = (1 << 31) - 1

# op -> (kind, argument types by arity, result type, template).  Types: i number, u unsigned, f float, s symbol.
# Operator names are souffle's enumerators; UEQ/SEQ/UNE/SNE are EQ/NE on unsigned / symbol operands.
def _fn(args, res, tpl): return ("fn", args, res, tpl)
def _cmp(args, tpl): return ("cmp", args, None, tpl)
def _gen(t): return ("gen", {2: [t, t], 3: [t, t, t]}, t, "range({a})")

OPS = {}
def _intfam(p, t):
    o = OPS
    o[p + "BNOT"] = _fn([t], t, "bnot {0}"); o[p + "LNOT"] = _fn([t], t, "lnot {0}")
    for n, s in (("ADD", "+"), ("SUB", "-"), ("MUL", "*"), ("DIV", "/"), ("MOD", "%"), ("EXP", "^"), ("BAND", "band"),
                 ("BOR", "bor"), ("BXOR", "bxor"), ("BSHIFT_L", "bshl"), ("BSHIFT_R", "bshr"), ("BSHIFT_R_UNSIGNED", "bshru"),
                 ("LAND", "land"), ("LOR", "lor"), ("LXOR", "lxor")):
        o[p + n] = _fn([t, t], t, "({0} %s {1})" % s)
    o[p + "MAX"] = _fn({2: [t, t], 3: [t, t, t]}, t, "max({a})"); o[p + "MIN"] = _fn({2: [t, t], 3: [t, t, t]}, t, "min({a})")
_intfam("", "i"); _intfam("U", "u")
OPS["NEG"] = _fn(["i"], "i", "-({0})")
OPS.update({"I2I": _fn(["i"], "i", "to_number({0})"), "I2U": _fn(["i"], "u", "to_unsigned({0})"),
            "I2S": _fn(["i"], "s", "to_string({0})"), "I2F": _fn(["i"], "f", "to_float({0})"),
            "U2U": _fn(["u"], "u", "to_unsigned({0})"), "U2I": _fn(["u"], "i", "to_number({0})"),
            "U2S": _fn(["u"], "s", "to_string({0})"), "U2F": _fn(["u"], "f", "to_float({0})"),
            "F2F": _fn(["f"], "f", "to_float({0})"), "F2I": _fn(["f"], "i", "to_number({0})"),
            "F2U": _fn(["f"], "u", "to_unsigned({0})"), "F2S": _fn(["f"], "s", "to_string({0})"),
            "S2S": _fn(["s"], "s", "to_string({0})"), "S2I": _fn(["s"], "i", "to_number({0})"),
            "S2U": _fn(["s"], "u", "to_unsigned({0})"), "S2F": _fn(["s"], "f", "to_float({0})"),
            "FNEG": _fn(["f"], "f", "-({0})")})
for n, s in (("FADD", "+"), ("FSUB", "-"), ("FMUL", "*"), ("FDIV", "/"), ("FEXP", "^")):
    OPS[n] = _fn(["f", "f"], "f", "({0} %s {1})" % s)
for p, t in (("F", "f"), ("S", "s")):
    OPS[p + "MAX"] = _fn({2: [t, t], 3: [t, t, t]}, t, "max({a})"); OPS[p + "MIN"] = _fn({2: [t, t], 3: [t, t, t]}, t, "min({a})")
OPS.update({"STRLEN": _fn(["s"], "i", "strlen({0})"), "CAT": _fn({2: ["s", "s"], 3: ["s", "s", "s"]}, "s", "cat({a})"),
            "SSADD": _fn(["s", "s"], "s", "({0} + {1})"), "SUBSTR": _fn(["s", "i", "i"], "s", "substr({0}, {1}, {2})")})
for p, t in (("", "i"), ("U", "u"), ("F", "f"), ("S", "s")):
    for n, s in (("EQ", "="), ("NE", "!="), ("LT", "<"), ("LE", "<="), ("GT", ">"), ("GE", ">=")):
        OPS[p + n] = _cmp([t, t], "{0} %s {1}" % s)
# `x = y` between two plain variables is unification (one variable, bit identity: -0.0 and 0.0 differ, a NaN equals itself);
# the FEQ constraint is what souffle evaluates when a side is an expression, hence the identity conversion on the left
OPS["FEQ"] = _cmp(["f", "f"], "to_float({0}) = {1}")
OPS.update({"CONTAINS": _cmp(["s", "s"], "contains({0}, {1})"), "NOT_CONTAINS": _cmp(["s", "s"], "!contains({0}, {1})"),
            "MATCH": _cmp(["s", "s"], "match({0}, {1})"), "NOT_MATCH": _cmp(["s", "s"], "!match({0}, {1})")})
OPS.update({"RANGE": _gen("i"), "URANGE": _gen("u"), "FRANGE": _gen("f")})

# enumerators of FunctorOps.h / BinaryConstraintOps.h that the specification leaves out (stated in the evidence)
NOT_SPECIFIED = {"ORD": "exposes the interning order / raw bits of a value",
                 "MATCH, NOT_MATCH": "only the regular-expression fragment  c . c* .*  (letters and digits) is specified"}

FAMILY = {"i": "signed", "u": "unsigned", "f": "float", "s": "symbol"}
def family(op, arity):
    """Compilation unit of an operator: by the type of its first argument (conversions from text live with the symbols)."""
    return "frange" if op == "FRANGE" else FAMILY[argtypes(op, arity)[0]]

def kind(op): return OPS[op][0]
def argtypes(op, arity):
    a = OPS[op][1]
    return a[arity] if isinstance(a, dict) else a
def restype(op): return OPS[op][2]
def expr(op, names):
    return OPS[op][3].format(*names, a=", ".join(names))

# ---- random argument vectors (inputs; seeded) -------------------------------------------------------------------
def _ri(rng):
    c = rng.random()
    if c < 0.30: return rng.randint(MIN, MAX)
    if c < 0.55: return rng.randint(-40, 40)
    if c < 0.80:
        v = rng.choice([1, -1]) * (1 << rng.randint(0, 31)) + rng.randint(-2, 2)
        return max(MIN, min(MAX, v))
    if c < 0.90: return rng.randint(-70000, 70000)
    return rng.choice([MIN, MAX, MIN + 1, MAX - 1, 0])
def _twin(x): return x - (1 << 32) if x >= (1 << 31) else x
def _ru(rng):
    c = rng.random()
    if c < 0.35: return _twin(rng.randint(0, (1 << 32) - 1))
    if c < 0.60: return rng.randint(0, 40)
    if c < 0.85: return _twin(max(0, min((1 << 32) - 1, (1 << rng.randint(0, 32)) + rng.randint(-2, 2))))
    return rng.choice([0, MAX, MIN, -1, -2, MIN + 1])
def _rsh(rng):
    return rng.choice([rng.randint(0, 40), rng.randint(0, 31), rng.randint(MIN, MAX), rng.choice([31, 32, 33, 63, 64, -1])])
def norm_fin(m, e):
    while m % 2 == 0:
        m //= 2; e += 1
    return ["fin", m, e]
def _rf(rng, wide=True):
    c = rng.random()
    if c < 0.08: return rng.choice([["zero", 0], ["zero", 1], ["inf", 0], ["inf", 1], ["nan"]])
    if c < 0.55:     # small mantissa, nearby exponents: sums, products and quotients are often exact
        m = rng.randint(1, 4095) * rng.choice([1, -1]); return norm_fin(m, rng.randint(-8, 8))
    if c < 0.75:
        m = rng.randint(1, 31) * rng.choice([1, -1]); return norm_fin(m, rng.randint(-6, 6))
    bits = rng.randint(1, 24); m = rng.randint(1 << (bits - 1), (1 << bits) - 1) * rng.choice([1, -1])
    return norm_fin(m, rng.randint(-40, 40) if wide else rng.randint(-20, 8))
ALPHA = "abAB01. "
def _rs(rng):
    return "".join(rng.choice(ALPHA) for _ in range(rng.choice([0, 1, 1, 2, 2, 3, 4, 6])))
def _rsn(rng):
    c = rng.random()
    if c < 0.3: return str(rng.randint(MIN, MAX))
    if c < 0.5: return str(rng.randint(0, (1 << 32) - 1))
    if c < 0.7:
        k = rng.randint(0, 6); n = rng.randint(0, 4000); sign = rng.choice(["", "-"])
        q = Fraction(n, 1 << k); ip = q.numerator // q.denominator; fp = q - ip
        digs = ""
        for _ in range(k):
            fp *= 10; digs += str(fp.numerator // fp.denominator); fp -= fp.numerator // fp.denominator
        return sign + str(ip) + ("." + digs if k else "")
    if c < 0.85: return rng.choice(["", "-", "0", "00", "-0", "+1", "1e3", "0x1f", "0b101", " 7", "7 ", "1.", ".5", "inf", "nan"])
    return str(rng.randint(-99, 99)) + rng.choice(["", "", "x", ".0", ".5", ".25", ".1"])
def _rpat(rng):
    return "".join(rng.choice("ab.*ab.") for _ in range(rng.randint(0, 4)))
def _rtxt(rng):
    return "".join(rng.choice("ab") for _ in range(rng.randint(0, 5)))

def random_args(op, arity, rng):
    ts = argtypes(op, arity)
    if op in ("BSHIFT_L", "BSHIFT_R", "BSHIFT_R_UNSIGNED", "UBSHIFT_L", "UBSHIFT_R", "UBSHIFT_R_UNSIGNED"):
        return [_ri(rng) if ts[0] == "i" else _ru(rng), _rsh(rng)]
    if op == "EXP": return [rng.choice([rng.randint(-12, 12), _ri(rng)]), rng.choice([rng.randint(0, 12), rng.randint(-3, 34)])]
    if op == "UEXP": return [rng.choice([rng.randint(0, 12), _ru(rng)]), rng.choice([rng.randint(0, 12), rng.randint(0, 34)])]
    if op == "FEXP": return [_rf(rng, False), rng.choice([norm_fin(rng.randint(1, 8) * rng.choice([1, -1]), 0), ["zero", 0], _rf(rng)])]
    if op == "SUBSTR": return [_rs(rng), rng.randint(-1, 8), rng.randint(-1, 8)]
    if op in ("S2I", "S2U", "S2F"): return [_rsn(rng)]
    if op in ("MATCH", "NOT_MATCH"): return [_rpat(rng), _rtxt(rng)]
    if op in ("CONTAINS", "NOT_CONTAINS"): return [_rtxt(rng)[:rng.randint(0, 3)], _rtxt(rng)]
    if op == "RANGE":
        a = rng.choice([rng.randint(-20, 20), _ri(rng)]); b = max(MIN, min(MAX, a + rng.randint(-40, 40)))
        return [a, b] if arity == 2 else [a, b, rng.choice([rng.randint(-5, 5), _ri(rng)])]
    if op == "URANGE":
        a = rng.choice([rng.randint(0, 40), _ru(rng)]); b = _twin(((a + (1 << 32)) % (1 << 32) + rng.randint(-40, 40)) % (1 << 32))
        return [a, b] if arity == 2 else [a, b, rng.choice([rng.randint(0, 5), _ru(rng)])]
    if op == "FRANGE":
        a = norm_fin(rng.randint(1, 64) * rng.choice([1, -1]), rng.randint(-3, 2))
        b = norm_fin(rng.randint(1, 64) * rng.choice([1, -1]), rng.randint(-3, 2))
        return [a, b] if arity == 2 else [a, b, norm_fin(rng.randint(1, 8) * rng.choice([1, -1]), rng.randint(-3, 1))]
    if kind(op) == "cmp" and ts[0] in "iuf" and rng.random() < 0.25:    # equal operands
        x = {"i": _ri, "u": _ru, "f": _rf}[ts[0]](rng); return [x, x]
    return [{"i": _ri, "u": _ru, "f": _rf, "s": _rs}[t](rng) for t in ts]

def random_vectors(seed, per_op):
    """op -> list of argument vectors (as the spec's values: unsigned as signed twins, floats as tagged tuples)."""
    rng = random.Random(seed)
    out = {}
    for op in sorted(OPS):
        a = OPS[op][1]
        arities = sorted(a) if isinstance(a, dict) else [len(a)]
        vs = []
        for k in range(per_op):
            vs.append(random_args(op, arities[k % len(arities)] if k % 4 == 3 else arities[0], rng))
        out[op] = vs
    return out

# ---- values -> souffle text ---------------------------------------------------------------------------------------
def dyadic_decimal(m, e):
    """Exact decimal expansion of m * 2^e (a finite decimal), always with a '.'."""
    q = Fraction(m) * (Fraction(2) ** e)
    sign = "-" if q < 0 else ""; q = abs(q)
    ip = q.numerator // q.denominator; fp = q - ip
    digs = ""
    while fp:
        fp *= 10; d = fp.numerator // fp.denominator; digs += str(d); fp -= d
    return sign + str(ip) + "." + (digs or "0")

def float_text(v, in_program):
    """Text of a float value: as a program constant (None when it has no literal: inf, nan) or as a fact-file field."""
    if v[0] == "fin": return dyadic_decimal(v[1], v[2])
    if v[0] == "zero": return "-0.0" if v[1] else "0.0"
    if in_program: return None
    if v[0] == "inf": return "-inf" if v[1] else "inf"
    return "nan"

def quote(s):
    assert all(32 <= ord(c) < 127 and c not in '"\\' for c in s), s
    return '"' + s + '"'

def value_text(v, t, in_program):
    if t == "i": return str(v)
    if t == "u": return str(v + (1 << 32) if v < 0 else v)
    if t == "f": return float_text(v, in_program)
    return quote(v) if in_program else v

# ---- output text -> values ----------------------------------------------------------------------------------------
def decode_float(txt):
    if txt in ("nan", "-nan"): return ["nan"]
    if txt == "inf": return ["inf", 0]
    if txt == "-inf": return ["inf", 1]
    x = struct.unpack("f", struct.pack("f", float(txt)))[0]     # the binary32 the text denotes (9 significant digits round-trip)
    if x == 0.0: return ["zero", 1 if math.copysign(1.0, x) < 0 else 0]
    if math.isinf(x): return ["inf", 1 if x < 0 else 0]
    m, e = math.frexp(x)                                           # x = m * 2^e, 0.5 <= |m| < 1: 24 bits make it integral
    return norm_fin(int(m * (1 << 24)), e - 24)

def decode(txt, t):
    if t == "i": return int(txt)
    if t == "u":
        v = int(txt)
        if not 0 <= v < (1 << 32): raise ValueError("unsigned column holds %r" % txt)
        return _twin(v)
    if t == "f": return decode_float(txt)
    return txt

def same(a, b, t):
    return a == b

TYPE_DECL = {"i": "number", "u": "unsigned", "f": "float", "s": "symbol"}
def relname(op, arity): return "%s_%d" % (op, arity)

def program(units):
    """units: list of (op, arity, text_vectors) with text_vectors = [(id, args)] given as program-text facts; the other
    vectors of the unit arrive through  in_<op>_<arity>.facts.  Output rows: id, arguments as transported, result."""
    L = []
    for op, arity, tv in units:
        ts = argtypes(op, arity); rn = relname(op, arity); k = kind(op)
        names = ["x%d" % i for i in range(arity)]
        L.append(".decl in_%s(id:number, %s)" % (rn, ", ".join("%s:%s" % (n, TYPE_DECL[t]) for n, t in zip(names, ts))))
        L.append(".input in_%s" % rn)
        cols = "id:number, " + ", ".join("%s:%s" % (n, TYPE_DECL[t]) for n, t in zip(names, ts))
        if k != "cmp":
            cols += ", r:%s" % TYPE_DECL[restype(op)]
        L.append(".decl out_%s(%s)" % (rn, cols))
        L.append(".output out_%s" % rn)
        head_args = "id, " + ", ".join(names); body = "in_%s(id, %s)" % (rn, ", ".join(names))
        if k == "fn":
            L.append("out_%s(%s, %s) :- %s." % (rn, head_args, expr(op, names), body))
        elif k == "gen":
            L.append("out_%s(%s, r) :- %s, r = %s." % (rn, head_args, body, expr(op, names)))
        else:
            L.append("out_%s(%s) :- %s, %s." % (rn, head_args, body, expr(op, names)))
        for vid, args in tv:
            L.append("in_%s(%d, %s)." % (rn, vid, ", ".join(value_text(v, t, True) for v, t in zip(args, ts))))
    return "\n".join(L) + "\n"

def write_facts(d, units_file_vectors):
    """units_file_vectors: list of (op, arity, [(id, args)])"""
    os.makedirs(d, exist_ok=True)
    for op, arity, fv in units_file_vectors:
        ts = argtypes(op, arity)
        with open(os.path.join(d, "in_%s.facts" % relname(op, arity)), "w") as f:
            for vid, args in fv:
                f.write("\t".join([str(vid)] + [value_text(v, t, False) for v, t in zip(args, ts)]) + "\n")

def read_output(d, op, arity):
    """-> dict id -> list of rows (args decoded, result decoded or None); raises on unparsable text."""
    ts = argtypes(op, arity); k = kind(op); rt = restype(op)
    rows = {}
    path = os.path.join(d, "out_%s.csv" % relname(op, arity))
    if not os.path.exists(path):
        return None
    with open(path, encoding="utf-8", errors="surrogateescape") as f:
        lines = f.read().split("\n")
    if lines and lines[-1] == "":
        lines.pop()
    want = 1 + arity + (0 if k == "cmp" else 1)
    for line in lines:
        parts = line.split("\t")
        if len(parts) != want:
            raise ValueError("row of %s has %d fields: %r" % (path, len(parts), line))
        vid = int(parts[0])
        args = [decode(p, t) for p, t in zip(parts[1:1 + arity], ts)]
        res = None if k == "cmp" else decode(parts[-1], rt)
        rows.setdefault(vid, []).append((args, res))
    return rows
