import argparse, importlib, os, sys
def main():
    ap = argparse.ArgumentParser()
    ap.add_argument("pid")
    ap.add_argument("--tier", default=os.environ.get("VERIF_TIER", "quick"), choices=["quick", "thorough"])
    ap.add_argument("--replay")
    a = ap.parse_args()
    mod = importlib.import_module("vf.props." + a.pid.lower())
    sys.exit(mod.run(a.tier, a.replay))
if __name__ == "__main__":
    main()
