"""Runs spec/Judge.tla (or a module extending it) on a list of cases; returns list of booleans (TLC's verdicts)."""
import os, re
from . import tlc
from .common import SPEC, write_data

def judge(cases, wd, name, res, module="Judge", extra_data=None, timeout=900):
    if not cases:
        return []
    d = os.path.join(wd, name)
    data = {"JudgeCases": cases}
    if extra_data:
        data.update(extra_data)
    write_data(d, "JudgeData", data)
    cfg = os.path.join(d, "J.cfg")
    with open(cfg, "w") as f:
        f.write("SPECIFICATION Spec\nINVARIANT Emit\nCHECK_DEADLOCK FALSE\n")
    r = tlc.run_tlc(os.path.join(SPEC, module + ".tla"), cfg, d, lib=d, timeout=timeout)
    verdicts = {}
    for m in re.finditer(r'<<"VERDICT", (\d+), (TRUE|FALSE)>>', r["out"]):
        verdicts[int(m.group(1))] = m.group(2) == "TRUE"
    if not r["ok"] or len(verdicts) != len(cases):
        res.infra_errors.append("Judge(%s) failed: %s" % (name, (r["error"] or r["violated"] or "missing verdicts")[-800:] if isinstance(r["error"] or r["violated"] or "", str) else "?"))
        return [None] * len(cases)
    res.add_tlc(r)
    return [verdicts[i + 1] for i in range(len(cases))]
