"""Wraps a flat generator program (vf/gen.py) into component hierarchies: the CP JSON read by spec/Components.tla
(Flatten) and printed by vf/comprender.py.  This module only WRITES source programs (where a declaration or a clause
is put, under which name a relation of a nested instance is referred to); it neither instantiates nor evaluates
anything.  Every shape is built so that the program it stands for is the original flat program with renamed
relations - `copies` records, per instance, the intended name of each original relation and is used for one thing
only: cross-checking TLC's model of Flatten(CP) against TLC's model of the original program.

Shapes: A one component, one instance | B inheritance chain, relations and clauses split over the levels |
C type-parameterised outer component with `.init inner = T` | D overridable relation, base clauses replaced through
`.override` | E several instantiations of one component | F depth-3 nesting | G component declared inside a
component (or inside its base) that shadows a global one of the same name.  The input relations stay global."""
import copy, random

SHAPES = ["A", "B", "C", "D", "E", "F", "G"]

def N(v): return {"k": "num", "v": v}
def Sx(v): return {"k": "str", "v": v}

def comp(name, encl=0, params=(), bases=(), rels=(), clauses=(), overrides=(), inits=()):
    return {"name": name, "encl": encl, "params": list(params), "bases": list(bases), "rels": list(rels),
            "clauses": list(clauses), "overrides": list(overrides), "inits": list(inits)}

def base(name, args=()): return {"name": name, "args": list(args)}
def init(inst, cname, args=()): return {"inst": inst, "comp": cname, "args": list(args)}

def _ren_lit(l, mp):
    if l["k"] in ("atom", "neg"):
        l["rel"] = mp.get(l["rel"], l["rel"])
    elif l["k"] == "agg":
        for x in l["body"]:
            _ren_lit(x, mp)

def ren_clause(c, mp):
    """the clause as it has to be WRITTEN at a place where relation r is visible under the name mp[r]"""
    c = copy.deepcopy({"head": c["head"], "body": c["body"]})
    c["head"]["rel"] = mp.get(c["head"]["rel"], c["head"]["rel"])
    for l in c["body"]:
        _ren_lit(l, mp)
    return c

def body_rels(c):
    out = set()
    def lit(l):
        if l["k"] in ("atom", "neg"):
            out.add(l["rel"])
        elif l["k"] == "agg":
            for x in l["body"]:
                lit(x)
    for l in c["body"]:
        lit(l)
    return out

def with_param(rels, code, pname):
    """relation declarations with attribute type `code` written as the type parameter pname"""
    out = []
    for r in rels:
        r = dict(r); r["types"] = [pname if t == code else t for t in r["types"]]; out.append(r)
    return out

class Split:
    def __init__(self, P):
        self.P = P
        self.inputs = [r for r in P["rels"] if r["input"]]
        self.idb = [r for r in P["rels"] if not r["input"]]
        self.names = [r["name"] for r in self.idb]
        inn = {r["name"] for r in self.inputs}
        self.groups = [list(st) for st in P["strata"] if not (set(st) & inn)]
        self.gclauses = [c for c in P["clauses"] if c["head"]["rel"] in inn]
        self.iclauses = [c for c in P["clauses"] if c["head"]["rel"] not in inn]
        self.rel = {r["name"]: r for r in P["rels"]}

    def parts(self, k, rng):
        """the stratum groups cut into k contiguous parts (lowest first); parts may be empty only if groups are few"""
        g = self.groups
        if len(g) >= k:
            cuts = sorted(rng.sample(range(1, len(g)), k - 1))
        else:
            cuts = sorted(rng.choice(range(0, len(g) + 1)) for _ in range(k - 1))
        b = [0] + cuts + [len(g)]
        return [[n for grp in g[b[i]:b[i + 1]] for n in grp] for i in range(k)]

    def pick_global(self, rng, exclude=()):
        c = [n for n in self.names if n not in exclude]
        return {rng.choice(c)} if c and rng.random() < 0.3 else set()

    def pick_code(self, rels, rng):
        codes = sorted({t for r in rels for t in r["types"]})
        return rng.choice(codes) if codes else None

    def rels(self, names):
        return [dict(self.rel[n]) for n in self.names if n in names]

    def const(self, ty, k=0):
        if ty == "i": return N(7 + k)
        if ty == "s": return Sx("zz")
        td = next(t for t in self.P["types"] if t["name"] == ty.split(":", 1)[1])
        if td["k"] == "rec":
            return {"k": "rec", "a": [self.const(t, k) for _, t in td["fields"]]}
        b = td["branches"][-1]
        return {"k": "adt", "b": b["name"], "a": [self.const(t, k) for _, t in b["fields"]]}

    def decoys(self, name, rng):
        """clauses that must NOT contribute: a fact outside the EDB domain and, when there is one, a weakened real clause"""
        r = self.rel[name]
        out = [{"head": {"rel": name, "args": [self.const(t) for t in r["types"]]}, "body": []}]
        real = [c for c in self.iclauses if c["head"]["rel"] == name and c["body"]]
        if real and rng.random() < 0.6:
            c = copy.deepcopy(rng.choice(real))
            weak = [l for l in c["body"] if not (l["k"] == "neg" or (l["k"] == "cmp" and l["op"] != "EQ"))]
            if len(weak) < len(c["body"]):
                out.append({"head": c["head"], "body": weak})
        return out

def _cp(S, shape, grels, comps, inits, copies, notes):
    P = S.P
    return {"id": "%s_%s" % (P["id"], shape), "shape": shape, "orig": P["id"], "types": P.get("types", []),
            "rels": [dict(r) for r in S.inputs] + grels, "clauses": list(S.gclauses), "comps": comps, "inits": inits,
            "dom": P["dom"], "edbs": P["edbs"], "copies": copies, "notes": sorted(notes)}

# ---- A / E: everything in one component ---------------------------------------------------------------------
def shape_A(S, rng, n_inst=1, shape="A"):
    notes = set()
    keep = S.pick_global(rng)
    inside = S.rels(set(S.names) - keep)
    code = S.pick_code(inside, rng) if rng.random() < 0.4 else None
    if code:
        inside = with_param(inside, code, "N"); notes.add("attribute-type-parameter")
    if keep:
        notes.add("clauses-for-global-relation")
    comps = [comp("CA", params=["N"] if code else [], rels=inside, clauses=S.iclauses)]
    insts = ["a", "b", "c"][:n_inst]
    inits = [init(x, "CA", [code] if code else []) for x in insts]
    copies = [{n: (n if n in keep else x + "." + n) for n in S.names} for x in insts]
    return _cp(S, shape, S.rels(keep), comps, inits, copies, notes)

# ---- B / D: inheritance chain --------------------------------------------------------------------------------
def shape_B(S, rng, override=False, shape="B"):
    notes = set()
    depth = rng.choice([2, 2, 3])
    cn = ["Base", "Mid", "Top"][:depth - 1] + ["Derived"]
    parts = S.parts(depth, rng)
    lvl = {n: i for i, p in enumerate(parts) for n in p}
    X = None
    if override:
        X = rng.choice(S.names)
        lvl[X] = rng.randint(0, depth - 2)
        ov_at = rng.randint(lvl[X] + 1, depth - 1)
    keep = S.pick_global(rng, exclude=[X])
    if keep:
        notes.add("clauses-for-global-relation")
    code = S.pick_code(S.idb, rng) if rng.random() < 0.4 else None
    cl = [[] for _ in range(depth)]
    for c in S.iclauses:
        h = c["head"]["rel"]
        if h == X:
            cl[rng.randint(ov_at, depth - 1)].append(c)         # the clauses that count: at or above the .override
            continue
        L = 0 if h in keep else lvl[h]
        if L > 0 and rng.random() < 0.15:
            cl[rng.randint(0, L - 1)].append(c); notes.add("clause-written-below-its-declaration")
        else:
            at = rng.randint(L, depth - 1)
            cl[at].append(c)
            if at > L:
                notes.add("clause-added-in-derived-component")
    if override:
        cl[lvl[X]] = S.decoys(X, rng) + cl[lvl[X]]
        for L in range(lvl[X] + 1, ov_at):
            if rng.random() < 0.5:
                cl[L] = S.decoys(X, rng)[:1] + cl[L]
        notes.add("override-at-level-%d-of-%d" % (ov_at + 1, depth))
    comps = []
    for L in range(depth):
        rels = S.rels({n for n in S.names if lvl[n] == L and n not in keep})
        for r in rels:
            if r["name"] == X:
                r["overridable"] = True
        p = "N%d" % L
        if code:
            rels = with_param(rels, code, p); notes.add("attribute-type-parameter-through-inheritance")
        comps.append(comp(cn[L], params=[p] if code else [], bases=[base(cn[L - 1], [p] if code else [])] if L else [],
                          rels=rels, clauses=cl[L], overrides=[X] if (override and L == ov_at) else []))
    inits = [init("a", cn[-1], [code] if code else [])]
    copies = [{n: (n if n in keep else "a." + n) for n in S.names}]
    return _cp(S, shape, S.rels(keep), comps, inits, copies, notes)

# ---- C / E / G: outer component with a nested instance --------------------------------------------------------
def shape_C(S, rng, n_inst=1, shape="C", nested_decl=False):
    notes = set()
    lower, upper = S.parts(2, rng)
    if not lower:
        lower, upper = upper, []
    keep = S.pick_global(rng)
    if keep:
        notes.add("clauses-for-global-relation")
    lower = [n for n in lower if n not in keep]; upper = [n for n in upper if n not in keep]
    code = S.pick_code(S.rels(lower), rng) if rng.random() < 0.5 else None
    up_mp = {n: "inner." + n for n in lower}
    kcl, ocl = [], []
    for c in S.iclauses:
        h = c["head"]["rel"]
        if h in lower:
            if rng.random() < 0.15:
                ocl.append(ren_clause(c, up_mp)); notes.add("clause-for-nested-relation-written-outside")
            else:
                kcl.append(c)
        elif (h in upper) and not (body_rels(c) & set(upper)) and rng.random() < 0.3:
            kcl.append(c); notes.add("clause-for-enclosing-relation-written-in-nested-component")
        elif (h in keep) and not (body_rels(c) & set(upper)) and rng.random() < 0.5:
            kcl.append(c)
        else:
            ocl.append(ren_clause(c, up_mp))
    krels = S.rels(lower)
    if code:
        krels = with_param(krels, code, "N"); notes.add("attribute-type-parameter-through-nested-init")
    inner_name = "Inner" if nested_decl else "K"
    K = comp(inner_name, params=["N"] if code else [], rels=krels, clauses=kcl)
    comps = []
    if not nested_decl:
        outer = comp("Outer", params=["T"] + (["M"] if code else []), rels=S.rels(upper), clauses=ocl,
                     inits=[init("inner", "T", ["M"] if code else [])])
        comps = [K, outer]
        top_args = ["K"] + ([code] if code else [])
        notes.add("component-type-parameter")
    else:
        # a global component of the same name with the same declarations but other clauses: must not be picked
        decoy = comp(inner_name, params=K["params"], rels=krels,
                     clauses=[d for n in lower for d in S.decoys(n, rng)[:1]])
        via_base = rng.random() < 0.5
        if via_base:
            comps = [decoy, comp("Holder"), dict(K, encl=2),
                     comp("Outer", params=["M"] if code else [], bases=[base("Holder")], rels=S.rels(upper), clauses=ocl,
                          inits=[init("inner", inner_name, ["M"] if code else [])])]
            notes.add("nested-declaration-found-through-base")
        else:
            comps = [decoy, comp("Outer", params=["M"] if code else [], rels=S.rels(upper), clauses=ocl,
                                 inits=[init("inner", inner_name, ["M"] if code else [])]), dict(K, encl=2)]
            notes.add("nested-declaration-shadows-global")
        if rng.random() < 0.5:
            comps = comps[1:] + comps[:1]           # the decoy declared last instead of first
            for c in comps:
                if c["encl"]:
                    c["encl"] -= 1
        top_args = [code] if code else []
    insts = ["o", "p", "q"][:n_inst]
    inits = [init(x, "Outer", top_args) for x in insts]
    copies = [{n: (n if n in keep else x + ".inner." + n if n in lower else x + "." + n) for n in S.names} for x in insts]
    return _cp(S, shape, S.rels(keep), comps, inits, copies, notes)

# ---- F: three levels of nesting -------------------------------------------------------------------------------
def shape_F(S, rng, shape="F"):
    notes = set()
    low, mid, top = S.parts(3, rng)
    code = S.pick_code(S.rels(low), rng) if rng.random() < 0.5 else None
    byname = rng.random() < 0.5            # the innermost component is passed down as a type parameter
    mp2 = {n: "n." + n for n in low}
    mp1 = dict({n: "m.n." + n for n in low}, **{n: "m." + n for n in mid})
    c3, c2, c1 = [], [], []
    for c in S.iclauses:
        h = c["head"]["rel"]; b = body_rels(c)
        if h in low:
            c3.append(c)
        elif h in mid:
            if not (b & set(mid)) and rng.random() < 0.2:
                c3.append(c); notes.add("clause-for-enclosing-relation-written-in-nested-component")
            else:
                c2.append(ren_clause(c, mp2))
        else:
            if not (b & (set(mid) | set(top))) and rng.random() < 0.2:
                c3.append(c); notes.add("clause-for-relation-two-levels-up-written-in-innermost-component")
            elif not (b & set(top)) and rng.random() < 0.2:
                c2.append(ren_clause(c, mp2)); notes.add("clause-for-enclosing-relation-written-in-nested-component")
            else:
                c1.append(ren_clause(c, mp1))
    r3 = S.rels(low)
    if code:
        r3 = with_param(r3, code, "N"); notes.add("attribute-type-parameter-through-two-nested-inits")
    pN = lambda p: [p] if code else []
    L3 = comp("L3", params=pN("N"), rels=r3, clauses=c3)
    if byname:
        notes.add("component-type-parameter-through-two-nested-inits")
        L2 = comp("L2", params=["U"] + pN("N2"), rels=S.rels(mid), clauses=c2, inits=[init("n", "U", pN("N2"))])
        L1 = comp("L1", params=["T"] + pN("N1"), rels=S.rels(top), clauses=c1, inits=[init("m", "L2", ["T"] + pN("N1"))])
        args = ["L3"] + pN(code)
    else:
        L2 = comp("L2", params=pN("N2"), rels=S.rels(mid), clauses=c2, inits=[init("n", "L3", pN("N2"))])
        L1 = comp("L1", params=pN("N1"), rels=S.rels(top), clauses=c1, inits=[init("m", "L2", pN("N1"))])
        args = pN(code)
    comps = [L1, L2, L3]
    rng.shuffle(comps)
    inits = [init("a", "L1", args)]
    copies = [{n: ("a.m.n." + n if n in low else "a.m." + n if n in mid else "a." + n) for n in S.names}]
    return _cp(S, shape, [], comps, inits, copies, notes)

def wrap(P, shape, rng):
    S = Split(P)
    if shape == "A": return shape_A(S, rng)
    if shape == "B": return shape_B(S, rng)
    if shape == "C": return shape_C(S, rng)
    if shape == "D": return shape_B(S, rng, override=True, shape="D")
    if shape == "E":
        return shape_A(S, rng, n_inst=2, shape="E") if rng.random() < 0.5 else shape_C(S, rng, n_inst=rng.choice([2, 3]), shape="E")
    if shape == "F": return shape_F(S, rng)
    if shape == "G": return shape_C(S, rng, shape="G", nested_decl=True)
    raise ValueError(shape)

REL_KEYS = ("name", "arity", "types", "input", "output", "eqrel")
def _rel(r): return {k: r.get(k, False) for k in REL_KEYS}
def _clause(c): return {"head": c["head"], "body": c["body"]}

def strip_for_tlc(CP):
    """the part of the component program spec/Components.tla reads"""
    return {"rels": [_rel(r) for r in CP["rels"]], "clauses": [_clause(c) for c in CP["clauses"]],
            "comps": [{"name": c["name"], "encl": c["encl"], "params": c["params"], "bases": c["bases"],
                       "rels": [_rel(r) for r in c["rels"]], "clauses": [_clause(x) for x in c["clauses"]],
                       "overrides": c["overrides"], "inits": c["inits"]} for c in CP["comps"]],
            "inits": CP["inits"], "dom": CP["dom"], "edbs": CP["edbs"]}
