"""C21: the programs whose embedding API is explored exhaustively by spec/Api.tla, as JSON ASTs in the format of
vf/gen.py (rendered by vf/render.py, given to TLC through the DatalogData module), plus the API universe:
  univ[r]  tuples Insert may add to input relation r (two per input relation),
  probe[r] tuples Contains asks about (members in some states, never-members, and tuples that differ from a member
           in the last column only),
  files[r] contents of the fact file of input relation r (loadAll / runAll).
Nothing here evaluates a program: every expected value comes from TLC."""
import random
from .gen import V, N, S, F, ANY

def rel(name, types, inp=False, out=False):
    return {"name": name, "arity": len(types), "types": list(types), "input": inp, "output": out, "eqrel": False}

def atom(r, *args):
    return {"k": "atom", "rel": r, "args": list(args)}

def neg(r, *args):
    return {"k": "neg", "rel": r, "args": list(args)}

def cmp_(op, l, r):
    return {"k": "cmp", "op": op, "l": l, "r": r}

def cl(head, *body):
    return {"head": {"rel": head["rel"], "args": head["args"]}, "body": list(body)}

def finish(P):
    P.setdefault("types", [])
    P["dom"] = {"i": [0, 1, 2], "s": ["a", "b"]}
    P["edbs"] = {"mode": "list", "list": []}       # the EDB space of Datalog.tla is not used by Api.tla
    P["hidden"] = [x["name"] for x in P["rels"] if not x["input"] and not x["output"]]
    return P

def tc():
    """transitive closure through an internal relation; a fact for the input relation in the program text; a symbol
    output defined by a fact only."""
    x, y, z = V("x"), V("y"), V("z")
    return finish({"id": "api_tc", "rels": [rel("e", "ii", inp=True), rel("mid", "ii"), rel("path", "ii", out=True),
                                            rel("tag", "s", out=True)],
                   "clauses": [cl(atom("e", N(7), N(8))),
                               cl(atom("tag", S("k"))),
                               cl(atom("mid", x, y), atom("e", x, y), cmp_("NE", x, y)),
                               cl(atom("path", x, y), atom("mid", x, y)),
                               cl(atom("path", x, z), atom("path", x, y), atom("mid", y, z))],
                   "strata": [["e"], ["tag"], ["mid"], ["path"]],
                   "univ": {"e": [[1, 2], [2, 3]]},
                   "files": {"e": [[2, 3], [3, 1]]},
                   "probe": {"e": [[1, 2], [7, 8], [1, 3]], "mid": [[1, 2], [2, 1]],
                             "path": [[1, 2], [1, 3], [1, 1], [3, 2], [7, 8], [7, 9]], "tag": [["k"], ["e"], [""]]}})

def negp():
    """negation (not monotone: stale outputs after insert/run/insert/run), symbols, two input relations, one of them
    also an output relation, a fact for an input relation."""
    x = V("x")
    return finish({"id": "api_neg", "rels": [rel("a", "s", inp=True), rel("b", "s", inp=True, out=True),
                                             rel("only", "si", out=True)],
                   "clauses": [cl(atom("a", S("k"))),
                               cl(atom("only", x, N(1)), atom("a", x), neg("b", x))],
                   "strata": [["a"], ["b"], ["only"]],
                   "univ": {"a": [["p"], ["q q"]], "b": [["p"], ["k"]]},
                   "files": {"a": [["p"]], "b": [["q q"]]},
                   "probe": {"a": [["p"], ["k"], ["zz"]], "b": [["p"], ["k"], ["q q"]],
                             "only": [["p", 1], ["p", 2], ["k", 1], ["q q", 1], ["q", 1]]}})

def agg():
    """count aggregate (Datalog.tla counts valuations of named variables, so the aggregate body names its variables, as the
    generator does), internal relation with a constraint, ternary input (last-column probes)."""
    x, y, n = V("x"), V("y"), V("n")
    return finish({"id": "api_agg", "rels": [rel("in0", "isi", inp=True), rel("hid", "ii"), rel("cnt", "i", out=True),
                                             rel("big", "i", out=True), rel("sel", "isi", out=True)],
                   "clauses": [cl(atom("hid", x, y), atom("in0", x, ANY, y), cmp_("LT", x, y)),
                               cl(atom("cnt", n), {"k": "agg", "op": "count", "res": n, "tgt": {"k": "nil"},
                                                   "body": [atom("hid", V("u"), V("v"))], "outer": []}),
                               cl(atom("big", n), atom("cnt", n), cmp_("GE", n, N(2))),
                               cl(atom("sel", x, V("s"), y), atom("in0", x, V("s"), y), atom("hid", x, y))],
                   "strata": [["in0"], ["hid"], ["cnt"], ["big"], ["sel"]],
                   "univ": {"in0": [[1, "u", 2], [1, "u", 3]]},
                   "files": {"in0": [[2, "v", 5], [4, "w", 1]]},
                   "probe": {"in0": [[1, "u", 2], [1, "u", 3], [1, "u", 4], [4, "w", 1]], "hid": [[1, 2], [1, 3], [4, 1]],
                             "cnt": [[0], [1], [2], [3]], "big": [[1], [2], [3]],
                             "sel": [[1, "u", 2], [1, "u", 3], [1, "u", 5], [2, "v", 5], [4, "w", 1]]}})

def mutual():
    """mutual recursion (one relation internal), a relation given by facts only (internal), arithmetic in a bounded range."""
    x, y, z = V("x"), V("y"), V("z")
    return finish({"id": "api_mut", "rels": [rel("s0", "i", inp=True), rel("st", "ii"), rel("ev", "i", out=True),
                                             rel("od", "i"), rel("reach", "ii", out=True)],
                   "clauses": [cl(atom("st", N(0), N(1))), cl(atom("st", N(1), N(2))), cl(atom("st", N(2), N(3))),
                               cl(atom("ev", x), atom("s0", x)),
                               cl(atom("od", y), atom("ev", x), atom("st", x, y)),
                               cl(atom("ev", y), atom("od", x), atom("st", x, y)),
                               cl(atom("reach", x, z), atom("ev", x), atom("od", y),
                                  cmp_("EQ", z, F("ADD", x, y)), cmp_("LE", z, N(6)))],
                   "strata": [["s0"], ["st"], ["ev", "od"], ["reach"]],
                   "univ": {"s0": [[0], [2]]},
                   "files": {"s0": [[1], [2]]},
                   "probe": {"s0": [[0], [1], [2]], "st": [[0, 1], [1, 2], [1, 0]], "ev": [[0], [1], [2], [3]],
                             "od": [[0], [1], [2], [3]], "reach": [[0, 1], [2, 3], [0, 3], [2, 1], [1, 1], [3, 3]]}})

HAND = [tc, negp, agg, mutual]

def hand_programs(tier):
    return [f() for f in HAND]

def from_generator(P, seed):
    """API universe for a program of the seeded generator (thorough tier): two tuples per input relation over the
    generator's column domains, probes sampled from the column domains (plus the universe tuples), files = one
    universe tuple and one other tuple.  Returns None when the input space is not plain numbers/symbols."""
    import itertools, copy
    rng = random.Random(seed)
    P = copy.deepcopy(P)
    univ = {}; probe = {}; files = {}
    dom = {"i": [0, 1, 2, 3, -1], "s": ["a", "b", "ab", ""]}
    for r in P["rels"]:
        if any(t not in ("i", "s") for t in r["types"]):
            if r["input"]:
                return None
            probe[r["name"]] = []          # record / ADT columns: no Contains probes (iterate and size still compared)
            continue
        allt = [list(t) for t in itertools.product(*[dom[t] for t in r["types"]])]
        if r["input"]:
            base = [list(t) for t in itertools.product(*[P["dom"][t] for t in r["types"]])]
            u = rng.sample(base, min(2, len(base)))
            univ[r["name"]] = u
            others = [t for t in base if t not in u]
            files[r["name"]] = [u[0]] + (rng.sample(others, 1) if others else [])
        probe[r["name"]] = rng.sample(allt, min(4, len(allt)))
        for t in univ.get(r["name"], []):
            if t not in probe[r["name"]]:
                probe[r["name"]].append(t)
    P["univ"] = univ; P["probe"] = probe; P["files"] = files
    P["edbs"] = {"mode": "list", "list": []}
    return P

def strip_for_api(P):
    """The part of the program spec/Api.tla reads."""
    from .gen import strip_for_tlc
    d = strip_for_tlc(P)
    d["univ"] = P["univ"]; d["probe"] = P["probe"]; d["files"] = P["files"]
    return d
