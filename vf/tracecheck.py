"""Trace validation: a list of recorded events (dicts) is inlined into a generated module extending a *Trace spec,
TLC runs it; the trace is accepted iff every event was consumed (POSTCONDITION on the search depth).
Returns (accepted, consumed, tlc_result)."""
import os
from . import tlc
from .common import to_tla, write_mc, write_data, SPEC

def validate(trace_module, events, wd, name, constants="", spec="TSpec", post="Accepted", timeout=900, heap="8g",
             invariants=()):
    """trace_module (in /verif/spec) EXTENDS TraceDataModule; the events are written as that module into wd/<name>/."""
    d = os.path.join(wd, name)
    write_data(d, "TraceDataModule", {"TraceData": events})
    cfg = os.path.join(d, name + ".cfg")
    with open(cfg, "w") as f:
        f.write("SPECIFICATION %s\n%s\n%sPOSTCONDITION %s\nCHECK_DEADLOCK FALSE\n"
                % (spec, constants, "".join("INVARIANT %s\n" % i for i in invariants), post))
    r = tlc.run_tlc(os.path.join(SPEC, trace_module + ".tla"), cfg, d, workers=1, timeout=timeout, heap=heap, lib=d)
    consumed = max(0, r["depth"] - 1)
    if r["ok"]:
        return True, len(events), r
    if r["violated"] == "POSTCONDITION" or (r["depth"] and consumed < len(events) and not r["error"]):
        return False, consumed, r
    if r["violated"]:
        return False, consumed, r
    return None, consumed, r      # infrastructure problem
