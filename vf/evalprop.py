"""Shared driver for the properties decided by EVAL (DESIGN 9): TLC computes Model(P, EDB) from spec/Datalog.tla for
every EDB of the bounded space; the real souffle runs the same program in the configurations the property
quantifies over; outputs must equal the model.  Known findings are matched by signature functions."""
import json, os, random, copy, concurrent.futures as cf
from . import gen, evalcore, build, render, known
from .common import workdir, seed, Result, NCPU, log
from .evidence import finish

def run_eval(pid, tier, make_programs, make_configs, assumptions, n=(12, 200), max_cases=(24, 256),
             level="model_checking", extra=None, chunk=40, known_sig=None, post=None):
    """make_programs(seed, n) -> list of program JSON; make_configs(P, rng) -> list of config dicts
    (see evalcore.run_configs).  known_sig(desc, P, case, cfg, outcome) -> finding id or None."""
    res = Result(pid, tier)
    build.ensure_souffle()
    wd = workdir(pid)
    rng = random.Random(seed() * 7919 + sum(map(ord, pid)))
    k = n[0] if tier == "quick" else n[1]
    Ps = make_programs(seed() * 1000 + sum(map(ord, pid)), k)
    cases = evalcore.tlc_models(Ps, wd, res, chunk=chunk)
    kf = known.load()
    def on_violation(desc, P, case, cfg, o):
        if known_sig:
            fid = known_sig(desc, P, case, cfg, o)
            if fid and known.is_listed(kf, pid, fid):
                msg = known.describe(kf, pid, fid)
                if msg not in res.known:
                    res.known.append(msg)
                res.count("known_finding_hits")
                return True
        return False
    runs = 0; nontriv = 0; total = 0; nconf = 0
    pool = cf.ThreadPoolExecutor(NCPU)
    outer = cf.ThreadPoolExecutor(4)
    stat = {"runs": 0, "nconf": 0}
    def one(i):
        P = Ps[i]
        if not cases[i]:
            return
        configs = make_configs(P, random.Random(seed() * 104729 + i))
        r = evalcore.run_configs(P, cases[i], configs, wd, res, pid, "p%d" % i,
                                 max_cases=(max_cases[0] if tier == "quick" else max_cases[1]),
                                 rng=random.Random(seed() * 1299709 + i), pool=pool, on_violation=on_violation)
        with res._lock:
            stat["runs"] += r; stat["nconf"] += len(configs)
        c = cases[i][len(cases[i]) // 2]
        res.sample({"program": P["id"], "features": P.get("features"), "text": render.program(P)[:1200],
                    "edb": c["edb"], "model": c["model"],
                    "configs": [x["name"] for x in configs][:12]}, limit=3)
    try:
        list(outer.map(one, range(len(Ps))))
    finally:
        outer.shutdown(); pool.shutdown()
    runs = stat["runs"]; nconf = stat["nconf"]
    for i in range(len(Ps)):
        nontriv += evalcore.nontrivial(cases[i]); total += len(cases[i])
    if post:
        post(res, Ps, cases, wd)
    res.cov.update({"programs": len(Ps), "configurations": nconf, "edb_cases_modelled": total,
                    "edb_cases_nontrivial": nontriv, "real_runs_compared": runs})
    if extra:
        res.cov.update(extra)
    return finish(res, level, assumptions=[
        "spec/Datalog.tla is the meaning of the generated fragment",
        "programs come from a seeded grammar-based generator, not from all programs"] + list(assumptions))
