// Replays schedules on the real souffle::OptimisticReadWriteLock under the cooperative scheduler.
// stdin: one job per line:  <progs> <schedule>     progs: "rw,read;write"   schedule: "1,2,2,1" (1-based client ids)
// stdout: per job "J <n>", then one line per step: k t version pt0,pt1.. ip0,ip1.. res0,res1.. ; then "E"
// After the schedule the remaining threads are drained round-robin; a drain that needs more than 100000 steps
// prints "LIVELOCK".
#include "coop.h"
#include "souffle/utility/ParallelUtil.h"
#include <cstdio>
#include <iostream>
#include <sstream>
static Coop* g = nullptr;
static void yieldHandler(const char* pt, const void*) {
    if (g) g->yield(pt);
}
using namespace souffle;
static std::vector<std::string> split(const std::string& s, char c) {
    std::vector<std::string> r;
    std::stringstream ss(s);
    std::string x;
    while (std::getline(ss, x, c)) r.push_back(x);
    return r;
}
int main() {
    souffle::verif::yieldHandler().store(&yieldHandler);
    std::string line;
    long job = 0;
    while (std::getline(std::cin, line)) {
        if (line.empty()) continue;
        auto sp = line.find(' ');
        bool randomSched = false;
        std::string progStr = line.substr(0, sp), schedStr = sp == std::string::npos ? "" : line.substr(sp + 1);
        std::vector<std::string> progs = split(progStr, ';');
        if (!progStr.empty() && progStr.back() == ';') progs.push_back("");
        int n = (int)progs.size();
        std::vector<int> sched;
        if (!schedStr.empty() && schedStr[0] == 'R') {  // seeded random schedule: R<seed>:<steps>
            unsigned long long st = std::stoull(schedStr.substr(1)) * 6364136223846793005ull + 1442695040888963407ull;
            int steps = std::stoi(schedStr.substr(schedStr.find(':') + 1));
            for (int i = 0; i < steps; i++) {
                st = st * 6364136223846793005ull + 1442695040888963407ull;
                sched.push_back(1 + (int)((st >> 33) % (unsigned)progs.size()));
            }
            randomSched = true;
        } else
            for (auto& x : split(schedStr, ','))
                if (!x.empty()) sched.push_back(std::stoi(x));
        OptimisticReadWriteLock lock;
        Coop coop(n);
        g = &coop;
        std::vector<std::string> res(n, "none");
        std::vector<int> ip(n, 1);
        std::vector<std::string> events;
        std::vector<std::thread> th;
        for (int t = 0; t < n; t++)
            th.emplace_back([&, t] {
                coop.threadBody(t, [&, t] {
                    for (auto& op : split(progs[t], ',')) {
                        if (op == "-" || op.empty()) continue;
                        coop.yield("op");  // operation boundary == spec pc "next"
                        std::string r;
                        auto ev = [&](const char* e, int ok) {
                            // API event at the call's return: atomic with its last access under the cooperative scheduler
                            events.push_back(std::string(e) + " " + std::to_string(t + 1) + " " + std::to_string(ok) + " " +
                                             std::to_string((int)lock.version.load()));
                        };
                        if (op == "read") {
                            auto l = lock.start_read();
                            ev("lease", 1);
                            bool ok = lock.validate(l);
                            ev("validate", ok);
                            r = ok ? "valid" : "invalid";
                        } else if (op == "rw" || op == "rabort") {
                            auto l = lock.start_read();
                            ev("lease", 1);
                            bool ok = lock.try_upgrade_to_write(l);
                            ev("upgrade", ok);
                            if (ok) {
                                if (op == "rw") {
                                    lock.end_write();
                                    ev("end", 1);
                                } else {
                                    lock.abort_write();
                                    ev("abort", 1);
                                }
                            }
                            r = ok ? "upok" : "upfail";
                        } else if (op == "write") {
                            lock.start_write();
                            ev("acquire", 1);
                            lock.end_write();
                            ev("end", 1);
                            r = "wrote";
                        } else if (op == "wabort") {
                            lock.start_write();
                            ev("acquire", 1);
                            lock.abort_write();
                            ev("abort", 1);
                            r = "aborted";
                        } else if (op == "trywrite") {
                            bool ok = lock.try_start_write();
                            ev("try", ok);
                            if (ok) {
                                lock.end_write();
                                ev("end", 1);
                            }
                            r = ok ? "tryok" : "tryfail";
                        }
                        res[t] = r;  // results become visible when the call returns
                        ip[t]++;
                    }
                    coop.yield("op");
                });
            });
        auto dump = [&](int t, int k) {
            std::printf("%d %d %d ", k, t + 1, (int)lock.version.load());
            for (int i = 0; i < n; i++) std::printf("%s%s", i ? "," : "", coop.lastPt[i].c_str());
            std::printf(" ");
            for (int i = 0; i < n; i++) std::printf("%s%d", i ? "," : "", ip[i]);
            std::printf(" ");
            for (int i = 0; i < n; i++) std::printf("%s%s", i ? "," : "", res[i].c_str());
            std::printf(" %d\n", (int)lock.is_write_locked());
        };
        std::printf("J %ld\n", job++);
        for (int t = 0; t < n; t++) coop.step(t);  // bring every thread to its first operation boundary
        dump(-1, 0);
        int k = 0;
        for (int t : sched) {
            k++;
            if (!coop.step(t - 1)) {
                if (randomSched) continue;
                std::printf("ERR thread %d already finished at step %d\n", t, k);
                break;
            }
            dump(t - 1, k);
        }
        bool any = true;
        long guard = 0;
        while (any && ++guard < 100000) {
            any = false;
            for (int t = 0; t < n; t++) any |= coop.step(t);
        }
        if (guard >= 100000) std::printf("LIVELOCK\n");
        dump(-1, -1);
        for (auto& e : events) std::printf("V %s\n", e.c_str());
        std::printf("E\n");
        g = nullptr;
        for (auto& x : th) x.join();
    }
    return 0;
}
