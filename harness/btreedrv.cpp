// Drives the real souffle::btree_set / btree_delete_set for C25 / C26.
//
// stdin: one job per line.
//   coop <tree> <fill> <progs> <sched> [inv] [shape]
//        tree  : s3 | d3 (blockSize 1 => 3 keys per node) | s256 | d256 (default block size); s = BTree.h, d = BTreeDelete.h
//        fill  : k1,k2,.. inserted sequentially first ("-" = none)
//        progs : thread programs separated by ';' -- "h:5,6" (one operation_hints object per thread) or "n:5,6"
//        sched : explicit "1,2,2,1" (1-based thread per scheduler step; afterwards the rest is drained round-robin)
//                R<seed>          uniformly random runnable thread per step
//                P<seed>:<d>      PCT: random priorities, d-1 priority change points
//                D<bound>:<max>   depth-first enumeration of all schedules with at most <bound> preemptions
//                                 (at most <max> executions); every execution is printed as a job of its own
//        inv   : check the structural invariants after every step at which no reachable lock is held
//        shape : print the tree shape and every thread's yield point after every step (replay of spec walks)
//   stress <tree> <threads> <order> <count> <seed> <hints 0|1> <permille> <range>
//        real OpenMP threads; order = sorted | reverse | random | dup | block ; yield handler = seeded perturbation
//   seq <tree> <ops>      ops: i5,e3,I-7 ...   sequential history (insert / erase); the shape is printed after every step,
//                         the query phase runs after upper-case operations and at the end
//
// stdout: "B <job line>" when a job starts; per execution:  "J <n> <echo of the job with the explicit schedule>", lines, "E".
//   V <json>        an API event for trace validation against spec/SortedSetAbs.tla
//   T <shape>       tree shape   [ [1 2] 3 [4] ]
//   S k t pts       scheduler step k ran thread t; pts = yield point of every thread afterwards
//   W <text>        structural invariant broken while threads are in flight (warning)
//   X <text>        structural invariant broken at quiescence / query loop did not terminate
//   LIVELOCK        threads still spinning after 200000 scheduler steps (process exits with code 3)
#include "coop_bt.h"
#include "souffle/datastructure/BTree.h"
#include "souffle/datastructure/BTreeDelete.h"
#include <algorithm>
#include <atomic>
#include <climits>
#include <cstdio>
#include <iostream>
#include <map>
#include <set>
#include <sstream>
#include <unistd.h>
#ifdef _OPENMP
#include <omp.h>
#endif

using namespace souffle;
using S3 = btree_set<int, detail::comparator<int>, std::allocator<int>, 1>;
using S256 = btree_set<int>;
using D3 = btree_delete_set<int, detail::comparator<int>, std::allocator<int>, 1>;
using D256 = btree_delete_set<int>;
static_assert(S3::max_keys_per_node == 3, "tiny nodes expected");
static_assert(D3::max_keys_per_node == 3, "tiny nodes expected");

static std::vector<std::string> split(const std::string& s, char c) {
    std::vector<std::string> r;
    std::stringstream ss(s);
    std::string x;
    while (std::getline(ss, x, c)) r.push_back(x);
    return r;
}
static std::vector<int> ints(const std::string& s) {
    std::vector<int> r;
    if (s == "-" || s.empty()) return r;
    for (auto& x : split(s, ',')) r.push_back(std::stoi(x));
    return r;
}
struct Rng {
    unsigned long long st;
    explicit Rng(unsigned long long seed) : st(seed * 6364136223846793005ull + 1442695040888963407ull) { next(); }
    unsigned long long next() {
        st = st * 6364136223846793005ull + 1442695040888963407ull;
        return st >> 33;
    }
    unsigned below(unsigned n) { return (unsigned)(next() % n); }
};

// ---------------------------------------------------------------- JSON-ish event output
static std::string jlist(const std::vector<int>& v) {
    std::string s = "[";
    for (std::size_t i = 0; i < v.size(); i++) s += (i ? "," : "") + std::to_string(v[i]);
    return s + "]";
}
static std::string jbools(const std::vector<int>& v) {
    std::string s = "[";
    for (std::size_t i = 0; i < v.size(); i++) s += std::string(i ? "," : "") + (v[i] ? "true" : "false");
    return s + "]";
}
static std::string jopts(const std::vector<std::pair<bool, int>>& v) {  // <<>> = end(), <<x>> = iterator at x
    std::string s = "[";
    for (std::size_t i = 0; i < v.size(); i++) s += std::string(i ? "," : "") + (v[i].first ? "[" + std::to_string(v[i].second) + "]" : "[]");
    return s + "]";
}

// ---------------------------------------------------------------- structural inspection (private fields)
template <typename Tree>
struct Inspect {
    using node = typename Tree::node;
    static constexpr int M = (int)Tree::max_keys_per_node;
    static void shape(const node* n, std::string& out, int depth = 0) {
        if (!n || depth > 40) {
            out += "?";
            return;
        }
        out += "[";
        int ne = (int)n->numElements;
        if (ne > M) ne = M;
        for (int i = 0; i <= ne; i++) {
            if (n->inner) {
                if (i) out += " ";
                shape(n->getChild(i), out, depth + 1);
            }
            if (i < ne) {
                if (i || n->inner) out += " ";
                out += std::to_string(n->keys[i]);
            }
        }
        out += "]";
    }
    static std::string shape(const Tree& t) {
        std::string s;
        if (!t.root)
            s = "[]";
        else
            shape(t.root, s);
        return s;
    }
    // is any lock reachable from the root (or the root lock) write-held?
    static bool anyLocked(const node* n, int depth = 0) {
        if (!n || depth > 40) return false;
        if (n->lock.is_write_locked()) return true;
        int ne = std::min((int)n->numElements, M);
        if (n->inner)
            for (int i = 0; i <= ne; i++)
                if (anyLocked(n->getChild(i), depth + 1)) return true;
        return false;
    }
    static bool anyLocked(const Tree& t) { return t.root_lock.is_write_locked() || anyLocked(t.root); }
    // structural invariants; returns "" or a description.  lo/hi: exclusive bounds from the separators above.
    static std::string check(const node* n, const node* parent, int pos, bool hasLo, int lo, bool hasHi, int hi, int depth,
            int& leafDepth, bool deletable) {
        if (!n) return "null child";
        if (depth > 40) return "depth > 40 (cycle?)";
        int ne = (int)n->numElements;
        if (ne > M) return "node with " + std::to_string(ne) + " > maxKeys elements";
        if (n->parent != parent) return "parent pointer wrong at depth " + std::to_string(depth);
        if (parent && (int)n->position != pos) return "position field " + std::to_string((int)n->position) + " != " + std::to_string(pos);
        (void)deletable;
        for (int i = 0; i < ne; i++) {
            if (i && !(n->keys[i - 1] < n->keys[i])) return "keys not strictly ascending inside a node";
            if (hasLo && !(lo < n->keys[i])) return "key " + std::to_string(n->keys[i]) + " not above separator " + std::to_string(lo);
            if (hasHi && !(n->keys[i] < hi)) return "key " + std::to_string(n->keys[i]) + " not below separator " + std::to_string(hi);
        }
        if (!n->inner) return "";  // (leaves at different depths would be odd but would not make any answer wrong)
        for (int i = 0; i <= ne; i++) {
            std::string r = check(n->getChild(i), n, i, i ? true : hasLo, i ? n->keys[i - 1] : lo, i < ne ? true : hasHi,
                    i < ne ? n->keys[i] : hi, depth + 1, leafDepth, deletable);
            if (!r.empty()) return r;
        }
        return "";
    }
    static std::string check(const Tree& t, bool deletable) {
        if (!t.root) return t.leftmost ? "leftmost set in an empty tree" : "";
        int ld = -1;
        std::string r = check(t.root, nullptr, 0, false, 0, false, 0, 0, ld, deletable);
        if (!r.empty()) return r;
        const node* l = t.root;
        while (l->inner) l = l->getChild(0);
        if (l != t.leftmost) return "leftmost does not reference the left-most leaf";
        return "";
    }
};

// ---------------------------------------------------------------- query phase
template <typename Tree>
static bool deref(const Tree& t, const typename Tree::iterator& it, int& v) {
    if (it == t.end()) return false;
    v = *it;
    return true;
}
// prints the "scan" (size + full iteration), "probe" and "chunks" events; returns false if an iteration did not terminate
template <typename Tree>
static bool queryPhase(const Tree& t, const std::vector<int>& probes, bool useHints, const std::vector<int>& chunkNs, long bound, bool scan = true) {
    if (scan) {
        std::vector<int> iter;
        long n = 0;
        for (auto it = t.begin(); it != t.end(); ++it) {
            if (++n > bound) {
                std::printf("X iteration did not reach end() after %ld steps\n", bound);
                return false;
            }
            iter.push_back(*it);
        }
        std::printf("V {\"e\":\"scan\",\"size\":%ld,\"iter\":%s}\n", (long)t.size(), jlist(iter).c_str());
    }
    std::vector<int> has;
    std::vector<std::pair<bool, int>> fnd, lb, ub;
    typename Tree::operation_hints hints;
    for (int q : probes) {
        int v = 0;
        bool f;
        if (useHints) {
            has.push_back(t.contains(q, hints));
            f = deref(t, t.find(q, hints), v);
            fnd.push_back({f, v});
            f = deref(t, t.lower_bound(q, hints), v);
            lb.push_back({f, v});
            f = deref(t, t.upper_bound(q, hints), v);
            ub.push_back({f, v});
        } else {
            has.push_back(t.contains(q));
            f = deref(t, t.find(q), v);
            fnd.push_back({f, v});
            f = deref(t, t.lower_bound(q), v);
            lb.push_back({f, v});
            f = deref(t, t.upper_bound(q), v);
            ub.push_back({f, v});
        }
    }
    if (!probes.empty())
        std::printf("V {\"e\":\"probe\",\"hints\":%d,\"q\":%s,\"has\":%s,\"find\":%s,\"lb\":%s,\"ub\":%s}\n", (int)useHints, jlist(probes).c_str(),
                jbools(has).c_str(), jopts(fnd).c_str(), jopts(lb).c_str(), jopts(ub).c_str());
    for (int cn : chunkNs) {
        auto chunks = t.getChunks(cn);
        std::string s = "[";
        bool first = true;
        long total = 0;
        for (auto& c : chunks) {
            std::vector<int> xs;
            for (auto it = c.begin(); it != c.end(); ++it) {
                if (++total > bound) {
                    std::printf("X iteration of a chunk of getChunks(%d) did not reach its end after %ld steps\n", cn, bound);
                    return false;
                }
                xs.push_back(*it);
            }
            s += (first ? "" : ",") + jlist(xs);
            first = false;
        }
        std::printf("V {\"e\":\"chunks\",\"n\":%d,\"cs\":%s]}\n", cn, s.c_str());
    }
    return true;
}
static std::vector<int> smallProbes(const std::vector<int>& keys) {
    int lo = 0, hi = 0;
    if (!keys.empty()) {
        lo = *std::min_element(keys.begin(), keys.end());
        hi = *std::max_element(keys.begin(), keys.end());
    }
    std::vector<int> p;
    if ((long)hi - lo <= 24) {
        for (int q = lo - 1; q <= hi + 1; q++) p.push_back(q);
    } else {
        std::set<int> s{INT_MIN, INT_MAX, 0, -1, 1};
        for (std::size_t i = 0; i < keys.size(); i += std::max<std::size_t>(1, keys.size() / 7)) {
            s.insert(keys[i]);
            if (keys[i] > INT_MIN) s.insert(keys[i] - 1);
            if (keys[i] < INT_MAX) s.insert(keys[i] + 1);
        }
        s.insert(lo);
        s.insert(hi);
        p.assign(s.begin(), s.end());
    }
    return p;
}

// ---------------------------------------------------------------- cooperative executions
using Coop = CoopBt;
static Coop* g = nullptr;
static std::vector<const void*>* gObj = nullptr;
static WorkerPool pool;
static void coopYield(const char* pt, const void* obj) {
    if (g && Coop::me >= 0) {
        (*gObj)[Coop::me] = obj;
        g->yield(pt);
    }
}
struct Prog {
    bool hints;
    std::vector<int> keys;
};
struct Frame {
    std::vector<int> alts;
    int idx;
    int cur;       // thread that ran the previous step (-1 none)
    bool curFree;  // cur could have continued (switching away from it is a preemption)
    int preBefore;
};
struct Policy {
    char kind = 'E';  // E explicit, R random, P pct, D dfs
    std::vector<int> explicitSched;
    Rng rng{1};
    // pct
    std::vector<int> prio;
    std::vector<long> changeAt;
    // dfs
    std::vector<Frame>* stack = nullptr;
    int bound = 0;
};
static bool spinPoint(const std::string& p) { return p == "orw.sr.load" || p == "orw.sw.for" || p == "orw.tsw.for"; }

template <typename Tree>
static bool runCoop(long& jobNo, const std::string& treeName, const std::vector<int>& fill, const std::vector<Prog>& progs,
        const std::string& progStr, const std::string& fillStr, Policy& pol, bool inv, bool shapes, bool deletable) {
    int n = (int)progs.size();
    Tree tree;
    std::vector<std::string> out;  // buffered lines (the header needs the executed schedule)
    // sequential prefill, folded into one event
    {
        std::vector<int> rs;
        for (int k : fill) rs.push_back(tree.insert(k));
        out.push_back("V {\"e\":\"fill\",\"ks\":" + jlist(fill) + ",\"rs\":" + jbools(rs) + "}");
    }
    Coop coop(n);
    std::vector<const void*> obj(n, nullptr);
    g = &coop;
    gObj = &obj;
    std::vector<std::string> events;
    pool.run(n, [&](int t) {
        coop.threadBody(t, [&, t] {
            typename Tree::operation_hints hints;
            for (int k : progs[t].keys) {
                coop.yield("op");
                events.push_back("V {\"e\":\"call\",\"t\":" + std::to_string(t + 1) + ",\"k\":" + std::to_string(k) + "}");
                bool r = progs[t].hints ? tree.insert(k, hints) : tree.insert(k);
                events.push_back("V {\"e\":\"ret\",\"t\":" + std::to_string(t + 1) + ",\"k\":" + std::to_string(k) + ",\"ok\":" +
                                 (r ? "true" : "false") + "}");
            }
            coop.yield("op");
        });
    });
    std::vector<int> sched;
    std::vector<char> blocked(n, 0);
    std::vector<std::string> prevPt(n, "");
    std::vector<const void*> prevObj(n, nullptr);
    for (int t = 0; t < n; t++) coop.step(t);  // every thread to its first operation boundary
    int cur = -1;
    long k = 0, allBlockedRounds = 0;
    int pre = 0;
    bool livelock = false;
    std::size_t evDone = 0;
    auto flushEvents = [&] {
        for (; evDone < events.size(); evDone++) out.push_back(events[evDone]);
    };
    long warnings = 0;
    while (true) {
        std::vector<int> live, runnable;
        for (int t = 0; t < n; t++)
            if (!coop.done[t]) {
                live.push_back(t);
                if (!blocked[t]) runnable.push_back(t);
            }
        if (live.empty()) break;
        if (++k > 200000) {
            livelock = true;
            break;
        }
        bool forced = runnable.empty();
        if (forced) {
            // every live thread is spinning: let them re-check in turn (a genuine deadlock ends in the step guard)
            runnable = live;
            allBlockedRounds++;
        }
        bool curFree = cur >= 0 && std::find(runnable.begin(), runnable.end(), cur) != runnable.end() && !forced;
        int choice = -1;
        if (pol.kind == 'E') {
            if ((std::size_t)(k - 1) < pol.explicitSched.size()) {
                choice = pol.explicitSched[k - 1] - 1;
                if (choice < 0 || choice >= n || coop.done[choice]) {
                    out.push_back("ERR thread " + std::to_string(choice + 1) + " not runnable at step " + std::to_string(k));
                    choice = -1;
                }
            }
            if (choice < 0) choice = forced ? live[(allBlockedRounds) % live.size()] : (curFree ? cur : runnable[0]);
        } else if (pol.kind == 'R') {
            choice = runnable[pol.rng.below((unsigned)runnable.size())];
        } else if (pol.kind == 'P') {
            for (long c : pol.changeAt)
                if (c == k && cur >= 0) pol.prio[cur] = -(int)k;  // demote the running thread below everybody
            choice = runnable[0];
            for (int t : runnable)
                if (pol.prio[t] > pol.prio[choice]) choice = t;
            if (forced) choice = live[allBlockedRounds % live.size()];
        } else {  // DFS
            auto& st = *pol.stack;
            std::size_t d = (std::size_t)(k - 1);
            if (d < st.size()) {
                choice = st[d].alts[st[d].idx];
                if (std::find(live.begin(), live.end(), choice) == live.end()) {
                    out.push_back("ERR nondeterministic replay at step " + std::to_string(k));
                    choice = runnable[0];
                }
            } else {
                Frame f;
                f.cur = cur;
                f.curFree = curFree;
                f.preBefore = pre;
                int dflt = curFree ? cur : runnable[forced ? allBlockedRounds % runnable.size() : 0];
                f.alts.push_back(dflt);
                if (!forced)
                    for (int t : runnable)
                        if (t != dflt) f.alts.push_back(t);
                f.idx = 0;
                st.push_back(f);
                choice = dflt;
            }
            if (curFree && choice != cur) pre++;
        }
        coop.step(choice);
        sched.push_back(choice + 1);
        // spin detection: the thread stopped at the very same lock primitive of the same lock again
        bool spin = spinPoint(coop.lastPt[choice]) && coop.lastPt[choice] == prevPt[choice] && obj[choice] == prevObj[choice];
        prevPt[choice] = coop.lastPt[choice];
        prevObj[choice] = obj[choice];
        // a step that made progress may have released what the others are waiting for; a spinning step has not
        // (otherwise two waiting threads would keep waking each other and starve the lock holder under PCT priorities)
        if (!spin)
            for (int t = 0; t < n; t++)
                if (t != choice) blocked[t] = 0;
        blocked[choice] = spin;
        cur = choice;
        flushEvents();
        if (shapes) {
            std::string pts;
            for (int t = 0; t < n; t++) pts += (t ? "," : "") + coop.lastPt[t];
            out.push_back("S " + std::to_string(k) + " " + std::to_string(choice + 1) + " " + pts + " " +
                          (Inspect<Tree>::anyLocked(tree) ? "L " : "U ") + Inspect<Tree>::shape(tree));
        }
        if (inv && !Inspect<Tree>::anyLocked(tree)) {
            std::string r = Inspect<Tree>::check(tree, deletable);
            if (!r.empty() && warnings++ < 3) out.push_back("W step " + std::to_string(k) + ": " + r + " in " + Inspect<Tree>::shape(tree));
        }
    }
    flushEvents();
    // header with the executed schedule => every execution can be replayed on its own
    std::string s;
    for (std::size_t i = 0; i < sched.size(); i++) s += (i ? "," : "") + std::to_string(sched[i]);
    std::printf("J %ld coop %s %s %s %s%s%s\n", jobNo++, treeName.c_str(), fillStr.c_str(), progStr.c_str(), s.empty() ? "-" : s.c_str(),
            inv ? " inv" : "", shapes ? " shape" : "");
    for (auto& l : out) std::printf("%s\n", l.c_str());
    if (livelock) {
        std::printf("LIVELOCK\nE\n");
        std::fflush(stdout);
        _exit(3);
    }
    pool.wait();
    g = nullptr;
    // quiescence: structure, then the query phase
    if (Inspect<Tree>::anyLocked(tree)) std::printf("X a lock is still write-held after all inserts returned: %s\n", Inspect<Tree>::shape(tree).c_str());
    {
        std::string r = Inspect<Tree>::check(tree, deletable);
        if (!r.empty()) std::printf("X structural invariant broken at quiescence: %s in %s\n", r.c_str(), Inspect<Tree>::shape(tree).c_str());
    }
    std::printf("T %s\n", Inspect<Tree>::shape(tree).c_str());
    std::vector<int> all = fill;
    for (auto& p : progs) all.insert(all.end(), p.keys.begin(), p.keys.end());
    auto probes = smallProbes(all);
    long bound = (long)all.size() + 8;
    std::vector<int> cns = all.size() <= 40 ? std::vector<int>{1, 2, 3, 5, 8} : std::vector<int>{2 + (int)(all.size() % 7), 16};
    if (queryPhase(tree, probes, false, cns, bound)) queryPhase(tree, probes, true, {}, bound, false);
    std::printf("E\n");
    std::fflush(stdout);
    return true;
}

template <typename Tree>
static void coopJob(long& jobNo, const std::vector<std::string>& f, bool deletable) {
    std::vector<int> fill = ints(f[2]);
    std::vector<Prog> progs;
    for (auto& p : split(f[3], ';')) {
        Prog pr;
        pr.hints = !p.empty() && p[0] == 'h';
        auto c = p.find(':');
        pr.keys = ints(c == std::string::npos ? "" : p.substr(c + 1));
        progs.push_back(pr);
    }
    bool inv = false, shapes = false;
    for (std::size_t i = 5; i < f.size(); i++) {
        if (f[i] == "inv") inv = true;
        if (f[i] == "shape") shapes = true;
    }
    const std::string& s = f[4];
    Policy pol;
    if (s[0] == 'R') {
        pol.kind = 'R';
        pol.rng = Rng(std::stoull(s.substr(1)));
        runCoop<Tree>(jobNo, f[1], fill, progs, f[3], f[2], pol, inv, shapes, deletable);
    } else if (s[0] == 'P') {
        pol.kind = 'P';
        auto c = s.find(':');
        pol.rng = Rng(std::stoull(s.substr(1, c - 1)));
        int d = std::stoi(s.substr(c + 1));
        int n = (int)progs.size();
        std::vector<int> perm(n);
        for (int i = 0; i < n; i++) perm[i] = i;
        for (int i = n - 1; i > 0; i--) std::swap(perm[i], perm[pol.rng.below(i + 1)]);
        pol.prio.assign(n, 0);
        for (int i = 0; i < n; i++) pol.prio[perm[i]] = i + 1;
        long est = 0;
        for (auto& p : progs) est += 14 * (long)p.keys.size() + 2;
        for (int i = 1; i < d; i++) pol.changeAt.push_back(1 + pol.rng.below((unsigned)std::max(2l, est)));
        runCoop<Tree>(jobNo, f[1], fill, progs, f[3], f[2], pol, inv, shapes, deletable);
    } else if (s[0] == 'D') {
        pol.kind = 'D';
        auto c = s.find(':');
        pol.bound = std::stoi(s.substr(1, c - 1));
        long maxExec = std::stol(s.substr(c + 1));
        std::vector<Frame> stack;
        pol.stack = &stack;
        long execs = 0;
        bool exhausted = false;
        while (true) {
            runCoop<Tree>(jobNo, f[1], fill, progs, f[3], f[2], pol, inv, shapes, deletable);
            execs++;
            // backtrack to the deepest step with an untried alternative within the preemption bound
            bool found = false;
            while (!stack.empty() && !found) {
                Frame& fr = stack.back();
                while (++fr.idx < (int)fr.alts.size()) {
                    int cost = (fr.curFree && fr.alts[fr.idx] != fr.cur) ? 1 : 0;
                    if (fr.preBefore + cost <= pol.bound) {
                        found = true;
                        break;
                    }
                }
                if (!found) stack.pop_back();
            }
            if (!found) {
                exhausted = true;
                break;
            }
            if (execs >= maxExec) break;
        }
        std::printf("D %ld %d\n", execs, (int)exhausted);
    } else {
        pol.kind = 'E';
        pol.explicitSched = ints(s);
        runCoop<Tree>(jobNo, f[1], fill, progs, f[3], f[2], pol, inv, shapes, deletable);
    }
}

// ---------------------------------------------------------------- real-thread stress
struct Perturb {
    static unsigned permille;
    static unsigned long long seed;
    static void handler(const char*, const void*) {
        static thread_local unsigned long long st = 0;
        if (st == 0) {
#ifdef _OPENMP
            st = seed * 0x9E3779B97F4A7C15ull + 77ull * (omp_get_thread_num() + 1) + 1;
#else
            st = seed + 1;
#endif
        }
        st ^= st >> 12;
        st ^= st << 25;
        st ^= st >> 27;
        unsigned long long r = st * 0x2545F4914F6CDD1Dull;
        if ((r >> 20) % 1000 < permille) {
            if ((r >> 40) % 8 == 0)
                std::this_thread::sleep_for(std::chrono::microseconds(1 + (r >> 50) % 100));
            else
                std::this_thread::yield();
        }
    }
};
unsigned Perturb::permille = 0;
unsigned long long Perturb::seed = 0;

template <typename Tree>
static void stressJob(long& jobNo, const std::string& line, const std::vector<std::string>& f, bool deletable) {
    int nt = std::stoi(f[2]);
    std::string order = f[3];
    int count = std::stoi(f[4]);
    unsigned long long seed = std::stoull(f[5]);
    bool useHints = f[6] == "1";
    Perturb::permille = (unsigned)std::stoi(f[7]);
    Perturb::seed = seed;
    long range = std::stol(f[8]);
    Rng rng(seed);
    // the keys of the whole run, dealt to the threads
    std::vector<int> keys;
    auto draw = [&]() -> int {
        if (range <= 0) return (int)(unsigned)(rng.next() ^ (rng.next() << 31));  // full 32-bit range
        return (int)(rng.next() % (unsigned long long)range) - (int)(range / 2);
    };
    std::vector<std::vector<int>> per(nt);
    if (order == "dup") {  // every thread inserts (a permutation of) the same keys
        std::set<int> ks;
        while ((int)ks.size() < count) ks.insert(draw());
        keys.assign(ks.begin(), ks.end());
        for (int t = 0; t < nt; t++) {
            per[t] = keys;
            if (t % 2 == 1) std::reverse(per[t].begin(), per[t].end());
            if (t >= 2)
                for (int i = (int)per[t].size() - 1; i > 0; i--) std::swap(per[t][i], per[t][rng.below(i + 1)]);
        }
    } else {
        for (int i = 0; i < count * nt; i++) keys.push_back(draw());
        if (order == "sorted" || order == "block") std::sort(keys.begin(), keys.end());
        if (order == "reverse") std::sort(keys.begin(), keys.end(), std::greater<int>());
        if (order == "block")  // contiguous blocks: thread t gets the t-th slice (souffle's partitioned scans)
            for (int i = 0; i < count * nt; i++) per[i / count].push_back(keys[i]);
        else  // interleaved: neighbouring keys go to different threads => contention on the same leaves
            for (int i = 0; i < count * nt; i++) per[i % nt].push_back(keys[i]);
    }
    Tree tree;
    struct Rec {
        long c, r;
        int k;
        bool ok;
    };
    std::vector<std::vector<Rec>> logs(nt);
    std::atomic<long> ticket{0};
    souffle::verif::yieldHandler().store(Perturb::permille ? &Perturb::handler : nullptr);
#pragma omp parallel num_threads(nt)
    {
#ifdef _OPENMP
        int t = omp_get_thread_num();
#else
        int t = 0;
#endif
        typename Tree::operation_hints hints;
        logs[t].reserve(per[t].size());
        for (int k : per[t]) {
            long c = ticket.fetch_add(1);
            bool ok = useHints ? tree.insert(k, hints) : tree.insert(k);
            long r = ticket.fetch_add(1);
            logs[t].push_back({c, r, k, ok});
        }
    }
    souffle::verif::yieldHandler().store(nullptr);
    std::printf("J %ld %s\n", jobNo++, line.c_str());
    // merge by ticket
    std::vector<std::string> ev(ticket.load());
    for (int t = 0; t < nt; t++)
        for (auto& r : logs[t]) {
            ev[r.c] = "V {\"e\":\"call\",\"t\":" + std::to_string(t + 1) + ",\"k\":" + std::to_string(r.k) + "}";
            ev[r.r] = "V {\"e\":\"ret\",\"t\":" + std::to_string(t + 1) + ",\"k\":" + std::to_string(r.k) + ",\"ok\":" + (r.ok ? "true" : "false") + "}";
        }
    for (auto& e : ev) std::printf("%s\n", e.c_str());
    if (Inspect<Tree>::anyLocked(tree)) std::printf("X a lock is still write-held after all inserts returned\n");
    std::string r = Inspect<Tree>::check(tree, deletable);
    if (!r.empty()) std::printf("X structural invariant broken at quiescence: %s\n", r.c_str());
    // probes: sample of present keys and neighbours, random keys, extremes
    std::set<int> ps{INT_MIN, INT_MAX, 0};
    for (int i = 0; i < 40; i++) {
        int k = keys[rng.below((unsigned)keys.size())];
        ps.insert(k);
        if (k > INT_MIN) ps.insert(k - 1);
        if (k < INT_MAX) ps.insert(k + 1);
        ps.insert(draw());
    }
    std::vector<int> probes(ps.begin(), ps.end());
    long bound = (long)keys.size() + 8;
    if (queryPhase(tree, probes, false, {(int)(1 + seed % 9), (int)(10 + seed % 120)}, bound)) {
        for (int i = (int)probes.size() - 1; i > 0; i--) std::swap(probes[i], probes[rng.below(i + 1)]);
        queryPhase(tree, probes, true, {}, bound, false);
    }
    std::printf("E\n");
    std::fflush(stdout);
}

// ---------------------------------------------------------------- sequential histories (C26)
template <typename Tree>
struct Eraser {
    static long erase(Tree&, int) { return -1; }
};
template <>
struct Eraser<D3> {
    static long erase(D3& t, int k) { return (long)t.erase(k); }
};
template <>
struct Eraser<D256> {
    static long erase(D256& t, int k) { return (long)t.erase(k); }
};
template <typename Tree>
static void seqJob(long& jobNo, const std::string& line, const std::vector<std::string>& f, bool deletable) {
    Tree tree;
    std::printf("J %ld %s\n", jobNo++, line.c_str());
    bool shapes = Tree::max_keys_per_node == 3;
    std::vector<int> universe;
    std::vector<std::string> ops = split(f[2], ',');
    for (auto& o : ops) universe.push_back(std::stoi(o.substr(1)));
    auto probes = smallProbes(universe);
    long bound = (long)ops.size() + 8;
    long step = 0;
    for (auto& o : ops) {
        int k = std::stoi(o.substr(1));
        step++;
        char c = o[0];
        bool query = c == 'I' || c == 'E' || step == (long)ops.size();  // upper case: query phase after this step
        if (c == 'i' || c == 'I') {
            bool r = tree.insert(k);
            std::printf("V {\"e\":\"ins\",\"k\":%d,\"ok\":%s}\n", k, r ? "true" : "false");
        } else {
            long r = Eraser<Tree>::erase(tree, k);
            std::printf("V {\"e\":\"erase\",\"k\":%d,\"n\":%ld}\n", k, r);
        }
        if (shapes) std::printf("T %s\n", Inspect<Tree>::shape(tree).c_str());
        std::string r = Inspect<Tree>::check(tree, deletable);
        if (!r.empty()) {
            std::printf("X structural invariant broken after step %ld (%s): %s\n", step, o.c_str(), r.c_str());
            break;
        }
        if (query) {
            if (!queryPhase(tree, probes, false, {1 + (int)(step % 4), 5 + (int)(step % 11)}, bound)) break;
            if (step % 2 == 0 && !queryPhase(tree, probes, true, {}, bound, false)) break;
        }
    }
    std::printf("E\n");
    std::fflush(stdout);
}

int main() {
    souffle::verif::yieldHandler().store(&coopYield);
    std::string line;
    long jobNo = 0;
    while (std::getline(std::cin, line)) {
        if (line.empty()) continue;
        auto f = split(line, ' ');
        const std::string& tr = f[1];
        std::printf("B %s\n", line.c_str());  // begin marker: identifies the job if the real code crashes
        std::fflush(stdout);
        if (f[0] == "coop") {
            souffle::verif::yieldHandler().store(&coopYield);
            if (tr == "s3") coopJob<S3>(jobNo, f, false);
            if (tr == "d3") coopJob<D3>(jobNo, f, true);
            if (tr == "s256") coopJob<S256>(jobNo, f, false);
            if (tr == "d256") coopJob<D256>(jobNo, f, true);
        } else if (f[0] == "stress") {
            if (tr == "s3") stressJob<S3>(jobNo, line, f, false);
            if (tr == "d3") stressJob<D3>(jobNo, line, f, true);
            if (tr == "s256") stressJob<S256>(jobNo, line, f, false);
            if (tr == "d256") stressJob<D256>(jobNo, line, f, true);
        } else if (f[0] == "seq") {
            souffle::verif::yieldHandler().store(nullptr);
            if (tr == "s3") seqJob<S3>(jobNo, line, f, false);
            if (tr == "d3") seqJob<D3>(jobNo, line, f, true);
            if (tr == "s256") seqJob<S256>(jobNo, line, f, false);
            if (tr == "d256") seqJob<D256>(jobNo, line, f, true);
        }
    }
    return 0;
}
