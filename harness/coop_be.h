#pragma once
// Cooperative scheduler for the brie / equivalence-relation drivers (C27, C28).  Same model as coop.h - exactly one thread (or the
// controller) runs at a time, threads hand over at the SOUFFLE_VERIF_YIELD points - but the scheduling decision is taken by the
// yielding thread itself (policy callback, called with the scheduler lock held), and every thread sleeps on its own condition
// variable: one wake-up per context switch and none at all when the policy lets the same thread continue.  On a loaded machine the
// controller round trip of coop.h costs two wake-ups per step, which dominated the run time of long schedules.
#include <condition_variable>
#include <functional>
#include <mutex>
#include <string>
#include <thread>
#include <vector>
struct CoopBE {
    std::mutex m;
    std::vector<std::condition_variable> cv;
    std::condition_variable cvCtl;
    int turn = -1;  // -1: controller
    int n;
    std::vector<char> done;
    std::vector<std::string> lastPt;
    // policy(from): `from` just reached a scheduling point / finished (-1: the controller starts a run).  Returns the thread to run
    // next (not a finished one) or -1 to give control back to the controller.
    std::function<int(int)> policy;
    static thread_local int me;
    explicit CoopBE(int n) : cv(n), n(n), done(n, 0), lastPt(n, "start") {}
    void yield(const char* pt) {
        if (me < 0) return;
        std::unique_lock<std::mutex> l(m);
        lastPt[me] = pt;
        int nxt = policy(me);
        if (nxt == me) return;
        turn = nxt;
        if (nxt >= 0)
            cv[nxt].notify_one();
        else
            cvCtl.notify_one();
        int self = me;
        cv[self].wait(l, [&] { return turn == self; });
    }
    void threadBody(int id, const std::function<void()>& f) {
        me = id;
        {
            std::unique_lock<std::mutex> l(m);
            cv[id].wait(l, [&] { return turn == id; });
        }
        f();
        {
            std::unique_lock<std::mutex> l(m);
            done[id] = 1;
            lastPt[id] = "done";
            int nxt = policy(id);
            turn = nxt;
            if (nxt >= 0)
                cv[nxt].notify_one();
            else
                cvCtl.notify_one();
        }
        me = -1;
    }
    // controller: let the policy run the threads until it returns -1
    void run() {
        std::unique_lock<std::mutex> l(m);
        int nxt = policy(-1);
        if (nxt < 0) return;
        turn = nxt;
        cv[nxt].notify_one();
        cvCtl.wait(l, [&] { return turn == -1; });
    }
    bool allDone() const {
        for (char d : done)
            if (!d) return false;
        return true;
    }
    // run every thread up to its first scheduling point (threads must start with a yield), in index order
    void start() {
        policy = [this](int from) { return from + 1 < n ? from + 1 : -1; };
        run();
    }
    // round-robin until every thread has finished; false if that needs more than `limit` steps (livelock)
    bool drain(long limit, const std::function<void(int)>& onStep = nullptr) {
        long steps = 0;
        bool live = true;
        policy = [&, this](int from) {
            if (from >= 0 && onStep) onStep(from);
            if (++steps > limit) {
                live = false;
                return -1;
            }
            for (int k = 1; k <= n; k++) {
                int t = ((from < 0 ? -1 : from) + k) % n;
                if (!done[t]) return t;
            }
            return -1;
        };
        run();
        return live;
    }
};
thread_local int CoopBE::me = -1;
