// The finite lattices of spec/Lattice.tla as souffle user-defined (stateful) functors.
#include "souffle/RecordTable.h"
#include "souffle/SymbolTable.h"
using souffle::RamDomain;
extern "C" {
RamDomain lub_max(souffle::SymbolTable*, souffle::RecordTable*, RamDomain a, RamDomain b) { return a >= b ? a : b; }
RamDomain glb_max(souffle::SymbolTable*, souffle::RecordTable*, RamDomain a, RamDomain b) { return a <= b ? a : b; }
RamDomain lub_min(souffle::SymbolTable*, souffle::RecordTable*, RamDomain a, RamDomain b) { return a <= b ? a : b; }
RamDomain glb_min(souffle::SymbolTable*, souffle::RecordTable*, RamDomain a, RamDomain b) { return a >= b ? a : b; }
RamDomain lub_or(souffle::SymbolTable*, souffle::RecordTable*, RamDomain a, RamDomain b) { return a | b; }
RamDomain glb_or(souffle::SymbolTable*, souffle::RecordTable*, RamDomain a, RamDomain b) { return a & b; }
RamDomain lub_flat(souffle::SymbolTable*, souffle::RecordTable*, RamDomain a, RamDomain b) {
    return a == b ? a : (a == 0 ? b : (b == 0 ? a : 3));
}
RamDomain glb_flat(souffle::SymbolTable*, souffle::RecordTable*, RamDomain a, RamDomain b) {
    return a == b ? a : (a == 3 ? b : (b == 3 ? a : 0));
}
}
