// C21: generic embedding driver.  Linked against one generated program (souffle -g, compiled with
// -D__EMBEDDED_SOUFFLE__); executes a call sequence read from stdin on souffle::ProgramFactory::newInstance(name) and
// prints every return value.  Only the public embedding API of SouffleInterface.h is used.
//
// One call per line, fields separated by TAB (symbols: \\ \t \n escaped; the empty field is the empty symbol):
//   new                         fresh program object (the previous one is destroyed)            -> ok
//   rels                        -> rels <n>, then n lines  r <name> <i|-><o|-> <arity> <attr types...>
//   insert <rel> <v>...         tuple built with the typed stream operators, Relation::insert    -> ok
//   contains <rel> <v>...       Relation::contains                                               -> b 0|1
//   size <rel>                  Relation::size                                                   -> n <size>
//   iterate <rel>               begin()..end(), every tuple read with the typed stream operators -> it <count>, then t <v>... lines
//   run                         SouffleProgram::run()                                            -> ok
//   runprune                    runAll("", "", performIO = false, pruneImdtRels = true)          -> ok
//   loadall <dir>               loadAll(dir)                                                     -> ok
//   printall <dir>              printAll(dir)                        } both echo the files written: files <n>, per file
//   runall <indir> <outdir>     runAll(indir, outdir, true, true)    } file <name> <lines>, then the raw lines prefixed "l "
//   purge_in / purge_out / purge_int    purgeInputRelations / purgeOutputRelations / purgeInternalRelations -> ok
//   snapshot                    size + iteration of every relation of getAllRelations()
//                               -> snap <n>, per relation  rel <name> <size> <count>, then t lines
// Columns of type record / ADT are passed and printed as their raw reference number prefixed with '#'.
#include "souffle/SouffleInterface.h"
#include <cstdio>
#include <cstdlib>
#include <dirent.h>
#include <fstream>
#include <iostream>
#include <memory>
#include <sstream>
#include <string>
#include <sys/stat.h>
#include <vector>

using namespace souffle;

static std::vector<std::string> split(const std::string& line) {
    std::vector<std::string> out;
    std::string cur;
    for (char c : line) {
        if (c == '\t') {
            out.push_back(cur);
            cur.clear();
        } else {
            cur += c;
        }
    }
    out.push_back(cur);
    return out;
}

static std::string unesc(const std::string& s) {
    std::string o;
    for (std::size_t i = 0; i < s.size(); i++) {
        if (s[i] == '\\' && i + 1 < s.size()) {
            char n = s[++i];
            o += n == 't' ? '\t' : n == 'n' ? '\n' : n;
        } else {
            o += s[i];
        }
    }
    return o;
}

static std::string esc(const std::string& s) {
    std::string o;
    for (char c : s) {
        if (c == '\\') {
            o += "\\\\";
        } else if (c == '\t') {
            o += "\\t";
        } else if (c == '\n') {
            o += "\\n";
        } else {
            o += c;
        }
    }
    return o;
}

// fill a tuple from text fields with the typed stream operators
static bool fill(Relation* rel, tuple& t, const std::vector<std::string>& f, std::size_t from) {
    if (f.size() - from != rel->getArity()) {
        return false;
    }
    for (std::size_t i = 0; i < rel->getArity(); i++) {
        const std::string& v = f[from + i];
        switch (*rel->getAttrType(i)) {
            case 's': t << unesc(v); break;
            case 'i': t << static_cast<RamSigned>(std::stoll(v)); break;
            case 'u': t << static_cast<RamUnsigned>(std::stoull(v)); break;
            case 'f': t << static_cast<RamFloat>(std::stod(v)); break;
            default: t << static_cast<RamSigned>(std::stoll(v.substr(1))); break;  // r / + : raw reference
        }
    }
    return true;
}

static std::string show(Relation* rel, tuple& t) {
    std::ostringstream o;
    t.rewind();
    for (std::size_t i = 0; i < rel->getArity(); i++) {
        o << '\t';
        switch (*rel->getAttrType(i)) {
            case 's': {
                std::string s;
                t >> s;
                o << esc(s);
                break;
            }
            case 'i': {
                RamSigned v;
                t >> v;
                o << v;
                break;
            }
            case 'u': {
                RamUnsigned v;
                t >> v;
                o << v;
                break;
            }
            case 'f': {
                RamFloat v;
                t >> v;
                o << v;
                break;
            }
            default: {
                RamSigned v;
                t >> v;
                o << '#' << v;
                break;
            }
        }
    }
    return o.str();
}

static void iterate(Relation* rel, std::vector<std::string>& rows) {
    for (auto it = rel->begin(); it != rel->end(); ++it) {
        rows.push_back(show(rel, *it));
    }
}

static void echoFiles(const std::string& dir) {
    std::vector<std::string> names;
    if (DIR* d = opendir(dir.c_str())) {
        while (dirent* e = readdir(d)) {
            std::string n = e->d_name;
            if (n != "." && n != "..") {
                names.push_back(n);
            }
        }
        closedir(d);
    }
    std::sort(names.begin(), names.end());
    std::cout << "files " << names.size() << "\n";
    for (const auto& n : names) {
        std::ifstream in(dir + "/" + n);
        std::vector<std::string> lines;
        std::string l;
        while (std::getline(in, l)) {
            lines.push_back(l);
        }
        std::cout << "file " << n << " " << lines.size() << "\n";
        for (const auto& x : lines) {
            std::cout << "l " << x << "\n";
        }
        in.close();
        std::remove((dir + "/" + n).c_str());
    }
}

int main(int argc, char** argv) {
    if (argc < 2) {
        std::cerr << "usage: apidrv <program name>\n";
        return 2;
    }
    std::ios::sync_with_stdio(false);
    std::unique_ptr<SouffleProgram> prog;
    std::string line;
    while (std::getline(std::cin, line)) {
        if (line.empty()) {
            continue;
        }
        auto f = split(line);
        const std::string& cmd = f[0];
        if (cmd == "new") {
            prog.reset(ProgramFactory::newInstance(argv[1]));
            if (!prog) {
                std::cout << "err no program " << argv[1] << "\n";
                return 3;
            }
            std::cout << "ok\n";
            continue;
        }
        if (!prog) {
            std::cout << "err no object\n";
            continue;
        }
        if (cmd == "rels") {
            auto all = prog->getAllRelations();
            auto ins = prog->getInputRelations();
            auto outs = prog->getOutputRelations();
            std::cout << "rels " << all.size() << "\n";
            for (Relation* r : all) {
                bool i = std::find(ins.begin(), ins.end(), r) != ins.end();
                bool o = std::find(outs.begin(), outs.end(), r) != outs.end();
                std::cout << "r\t" << r->getName() << "\t" << (i ? "i" : "-") << (o ? "o" : "-") << "\t" << r->getArity();
                for (std::size_t k = 0; k < r->getArity(); k++) {
                    std::cout << "\t" << r->getAttrType(k);
                }
                std::cout << "\n";
            }
        } else if (cmd == "insert" || cmd == "contains") {
            Relation* rel = f.size() > 1 ? prog->getRelation(f[1]) : nullptr;
            if (rel == nullptr) {
                std::cout << "err no relation\n";
                continue;
            }
            tuple t(rel);
            if (!fill(rel, t, f, 2)) {
                std::cout << "err arity\n";
                continue;
            }
            if (cmd == "insert") {
                rel->insert(t);
                std::cout << "ok\n";
            } else {
                std::cout << "b " << (rel->contains(t) ? 1 : 0) << "\n";
            }
        } else if (cmd == "size" || cmd == "iterate") {
            Relation* rel = f.size() > 1 ? prog->getRelation(f[1]) : nullptr;
            if (rel == nullptr) {
                std::cout << "err no relation\n";
                continue;
            }
            if (cmd == "size") {
                std::cout << "n " << rel->size() << "\n";
            } else {
                std::vector<std::string> rows;
                iterate(rel, rows);
                std::cout << "it " << rows.size() << "\n";
                for (const auto& r : rows) {
                    std::cout << "t" << r << "\n";
                }
            }
        } else if (cmd == "snapshot") {
            auto all = prog->getAllRelations();
            std::cout << "snap " << all.size() << "\n";
            for (Relation* rel : all) {
                std::vector<std::string> rows;
                iterate(rel, rows);
                std::cout << "rel\t" << rel->getName() << "\t" << rel->size() << "\t" << rows.size() << "\n";
                for (const auto& r : rows) {
                    std::cout << "t" << r << "\n";
                }
            }
        } else if (cmd == "run") {
            prog->run();
            std::cout << "ok\n";
        } else if (cmd == "loadall" && f.size() == 2) {
            prog->loadAll(f[1]);
            std::cout << "ok\n";
        } else if (cmd == "printall" && f.size() == 2) {
            mkdir(f[1].c_str(), 0777);
            prog->printAll(f[1]);
            echoFiles(f[1]);
        } else if (cmd == "runall" && f.size() == 3) {
            mkdir(f[2].c_str(), 0777);
            prog->runAll(f[1], f[2], true, true);
            echoFiles(f[2]);
        } else if (cmd == "runprune") {
            prog->runAll("", "", false, true);
            std::cout << "ok\n";
        } else if (cmd == "purge_in") {
            prog->purgeInputRelations();
            std::cout << "ok\n";
        } else if (cmd == "purge_out") {
            prog->purgeOutputRelations();
            std::cout << "ok\n";
        } else if (cmd == "purge_int") {
            prog->purgeInternalRelations();
            std::cout << "ok\n";
        } else {
            std::cout << "err unknown call\n";
        }
    }
    std::cout.flush();
    return 0;
}
