#pragma once
#include <condition_variable>
#include <mutex>
#include <string>
#include <vector>
#include <thread>
#include <functional>
// Minimal cooperative scheduler: exactly one thread (or the controller) runs at a time.
struct Coop {
    std::mutex m; std::condition_variable cv;
    int turn = -1;                       // -1: controller
    std::vector<char> done; std::vector<std::string> lastPt; std::vector<long> steps;
    static thread_local int me;
    explicit Coop(int n) : done(n, 0), lastPt(n, "start"), steps(n, 0) {}
    void yield(const char* pt) {
        if (me < 0) return;
        std::unique_lock<std::mutex> l(m);
        lastPt[me] = pt; turn = -1; cv.notify_all();
        cv.wait(l, [&] { return turn == me; });
    }
    void threadBody(int id, const std::function<void()>& f) {
        me = id;
        { std::unique_lock<std::mutex> l(m); cv.wait(l, [&] { return turn == me; }); }
        f();
        { std::unique_lock<std::mutex> l(m); done[me] = 1; lastPt[me] = "done"; turn = -1; cv.notify_all(); }
    }
    // run thread t until its next yield; false if already finished
    bool step(int t) {
        std::unique_lock<std::mutex> l(m);
        if (done[t]) return false;
        steps[t]++; turn = t; cv.notify_all();
        cv.wait(l, [&] { return turn == -1; });
        return true;
    }
};
thread_local int Coop::me = -1;
