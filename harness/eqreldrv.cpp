// Drives the real souffle::EquivalenceRelation<Tuple<RamDomain,2>> for property C28.
// stdin: one job per line
//   Q <nrels> <b|-|x> <ops>          sequential history on relations 1..nrels; the object state is dumped after every call
//        ops ','-separated:  i:r:a:b insert   A:r:o r.insertAll(o)   X:r:o r.extendAndInsert(o)
//                            c:r:a:b contains  s:r size               a:r:x getBoundaries<1>({x,_})
//                            l:r     full iteration (begin..end)      p:r:n partition(n)
//        b = run the whole query battery on every relation after every updating call (its calls perturb the forest by path
//        halving, so state lines are only comparable with the model when the battery is off); "-": the battery runs at the end only;
//        "x": no battery
//   C <setup ops|-> <progs> <sched>  relation 1: sequential set-up (ops as above), then concurrent inserts ("a:b,c:d;e:f" per
//        thread), then the battery
//        sched: R<seed>:<steps>:<stay>  seeded random, then round-robin drain
//               P<bound>:<max>          every schedule with <= bound deviations from "run the current thread to its end"
//               D<k>:<t>[:<k>:<t>..]    that default policy with the given deviations (step index, thread) - replays a P schedule
//               S<seed>:<permille>      real threads (OpenMP), random sched_yield at the hook points
// stdout per executed schedule: "J <job> <input line>" / "D <schedule>" / "S .." state lines / "V <event>" / "LIVELOCK" / "E"
#include "coop_be.h"
#include "souffle/RamTypes.h"
#include "souffle/datastructure/EquivalenceRelation.h"
#include "souffle/utility/ContainerUtil.h"
#include <algorithm>
#include <atomic>
#include <cstdio>
#include <deque>
#include <iostream>
#include <omp.h>
#include <set>
#include <sstream>
using namespace souffle;
using Rel = EquivalenceRelation<Tuple<RamDomain, 2>>;
using Val = RamDomain;
static CoopBE* g = nullptr;
static long gLine = 0;
static bool trace = false;  // EQREL_TRACE=1: print the yield point each scheduled thread resumes from (stderr)
static std::atomic<unsigned> stressPermille{0};
static std::atomic<unsigned long long> stressSeed{0};
static void yieldHandler(const char* pt, const void*) {
    if (g) {
        g->yield(pt);
        return;
    }
    unsigned pm = stressPermille.load(std::memory_order_relaxed);
    if (pm) {
        static thread_local unsigned long long st = 0;
        if (!st) st = stressSeed.load() * 0x9E3779B97F4A7C15ull + std::hash<std::thread::id>()(std::this_thread::get_id()) + 1;
        st ^= st >> 12;
        st ^= st << 25;
        st ^= st >> 27;
        unsigned long long r = st * 0x2545F4914F6CDD1Dull;
        if ((r >> 20) % 1000 < pm) std::this_thread::yield();
    }
}
static std::vector<std::string> split(const std::string& s, char c) {
    std::vector<std::string> r;
    std::stringstream ss(s);
    std::string x;
    while (std::getline(ss, x, c)) r.push_back(x);
    return r;
}
struct Rng {
    unsigned long long st;
    explicit Rng(unsigned long long s) : st(s * 6364136223846793005ull + 1442695040888963407ull) {}
    unsigned next(unsigned n) {
        st = st * 6364136223846793005ull + 1442695040888963407ull;
        return (unsigned)((st >> 33) % n);
    }
};
static std::string pr(Val a, Val b) {
    return std::to_string(a) + ":" + std::to_string(b);
}
template <typename It>
static std::string listRange(It b, It e, std::size_t cap) {
    std::string s;
    std::size_t c = 0;
    for (; b != e && c < cap; ++b, ++c) s += (s.empty() ? "" : ",") + pr((*b)[0], (*b)[1]);
    return s.empty() ? "-" : s;
}

// ---------------------------------------------------------------------------------------------------- state dump
static std::string stateOf(const Rel& r) {
    auto& ds = r.sds.ds;
    std::size_t n = ds.a_blocks.size();
    std::string d2s, par, rnk;
    for (std::size_t i = 0; i < n; i++) {
        block_t b = ds.a_blocks.get(i).load();
        d2s += (i ? "," : "") + std::to_string(r.sds.denseToSparseMap.get(i));
        par += (i ? "," : "") + std::to_string(DisjointSet::b2p(b));
        rnk += (i ? "," : "") + std::to_string((int)DisjointSet::b2r(b));
    }
    bool stale = r.statesMapStale.load();
    std::string cache;
    if (!stale) {
        for (auto& p : r.equivalencePartition) {
            cache += (cache.empty() ? "" : "/") + std::to_string(p.first) + "=";
            for (std::size_t i = 0; i < p.second->size(); i++) cache += (i ? "," : "") + std::to_string(p.second->get(i));
        }
    }
    auto e = [](const std::string& s) { return s.empty() ? std::string("-") : s; };
    return e(d2s) + " " + e(par) + " " + e(rnk) + " " + (stale ? "1" : "0") + " " + e(cache);
}

// ---------------------------------------------------------------------------------------------------- query battery
// The order of the reading calls rotates (rot): each kind of read is, in some history, the first one after an update, so that a
// read that fails to regenerate the cached partition lists is not masked by an earlier size() that did.
static long batteryRot = 0;
static void battery(const Rel& r, int ri, const std::vector<Val>& universe, std::vector<std::string>& out) {
    std::string R = std::to_string(ri);
    std::size_t cap = 4 * universe.size() * universe.size() + 8;
    long rot = batteryRot++;
    for (int s = 0; s < 6; s++) {
        switch ((s + rot) % 6) {
            case 0: out.push_back("size " + R + " " + std::to_string(r.size())); break;
            case 1: out.push_back("all " + R + " " + listRange(r.begin(), r.end(), cap)); break;
            case 2:
                for (Val a : universe) {
                    auto rg = r.getBoundaries<1>({{a, 0}});
                    out.push_back("ant " + R + " " + std::to_string(a) + " " + listRange(rg.begin(), rg.end(), cap));
                }
                break;
            case 3:
                for (Val a : universe)
                    for (Val b : universe) {
                        auto rg = r.getBoundaries<2>({{a, b}});
                        out.push_back("antpost " + R + " " + pr(a, b) + " " + listRange(rg.begin(), rg.end(), cap));
                    }
                break;
            case 4:
                for (Val a : universe)
                    if (r.containsElement(a)) {  // closure(x) requires x to be present
                        auto it = r.closure(a);
                        out.push_back("closure " + R + " " + std::to_string(a) + " " + listRange(it, r.end(), cap));
                    }
                break;
            case 5:
                for (std::size_t chunks : {3u, 1u, 400u}) {
                    std::string sx;
                    for (auto& rg : r.partition(chunks)) sx += listRange(rg.begin(), rg.end(), cap) + "|";
                    out.push_back("part " + R + " " + std::to_string(chunks) + " " + (sx.empty() ? "|" : sx));
                }
                break;
        }
    }
    for (Val a : universe)
        for (Val b : universe) out.push_back("contains " + R + " " + pr(a, b) + " " + std::to_string((int)r.contains(a, b)));
    {
        auto rg = r.getBoundaries<0>({{0, 0}});
        out.push_back("all " + R + " " + listRange(rg.begin(), rg.end(), cap));
    }
}

struct Op {
    char k;
    int r, o;
    Val a, b;
};
static std::vector<Op> parseOps(const std::string& s, std::set<Val>& universe) {
    std::vector<Op> ops;
    if (s == "-") return ops;
    for (auto& x : split(s, ',')) {
        if (x.empty()) continue;
        auto f = split(x, ':');
        Op op{f[0][0], std::stoi(f[1]), 0, 0, 0};
        if (op.k == 'i' || op.k == 'c') {
            op.a = (Val)std::stoll(f[2]);
            op.b = (Val)std::stoll(f[3]);
            universe.insert(op.a);
            universe.insert(op.b);
        } else if (op.k == 'A' || op.k == 'X') {
            op.o = std::stoi(f[2]);
        } else if (op.k == 'a') {
            op.a = (Val)std::stoll(f[2]);
            universe.insert(op.a);
        } else if (op.k == 'p') {
            op.a = (Val)std::stoll(f[2]);  // number of chunks
        }
        ops.push_back(op);
    }
    return ops;
}
// executes one sequential op; returns the result text (model's `out`), appends the API event
static std::string applyOp(std::vector<std::unique_ptr<Rel>>& rels, const Op& op, std::vector<std::string>& events) {
    Rel& r = *rels[op.r - 1];
    std::string R = std::to_string(op.r);
    switch (op.k) {
        case 'i': {
            bool res = r.insert(op.a, op.b);
            events.push_back("insert " + R + " " + pr(op.a, op.b));
            return res ? "TRUE" : "FALSE";
        }
        case 'A':
            r.insertAll(*rels[op.o - 1]);
            events.push_back("insertAll " + R + " " + std::to_string(op.o));
            return "-";
        case 'X':
            r.extendAndInsert(*rels[op.o - 1]);
            events.push_back("extend " + R + " " + std::to_string(op.o));
            return "-";
        case 'c': {
            bool res = r.contains(op.a, op.b);
            events.push_back("contains " + R + " " + pr(op.a, op.b) + " " + std::to_string((int)res));
            return res ? "TRUE" : "FALSE";
        }
        case 's': {
            std::size_t n = r.size();
            events.push_back("size " + R + " " + std::to_string(n));
            return std::to_string(n);
        }
        case 'a': {
            auto rg = r.getBoundaries<1>({{op.a, 0}});
            std::string l = listRange(rg.begin(), rg.end(), 1000);
            events.push_back("ant " + R + " " + std::to_string(op.a) + " " + l);
            std::size_t n = l == "-" ? 0 : std::count(l.begin(), l.end(), ',') + 1;
            return std::to_string(n);
        }
        case 'l': {  // full iteration
            std::string l = listRange(r.begin(), r.end(), 100000);
            events.push_back("all " + R + " " + l);
            return std::to_string(l == "-" ? 0 : std::count(l.begin(), l.end(), ',') + 1);
        }
        case 'p': {  // partition(n)
            std::string sx;
            for (auto& rg : r.partition((std::size_t)op.a)) sx += listRange(rg.begin(), rg.end(), 100000) + "|";
            events.push_back("part " + R + " " + std::to_string(op.a) + " " + (sx.empty() ? "|" : sx));
            return "-";
        }
    }
    return "?";
}
static std::vector<Val> universeOf(std::set<Val> u) {
    // one value that was never inserted, to probe absent elements
    for (Val extra : {(Val)7, (Val)-7, (Val)12345}) {
        if (!u.count(extra)) {
            u.insert(extra);
            break;
        }
    }
    return std::vector<Val>(u.begin(), u.end());
}

static void runQ(long job, int nrels, bool bat, bool finalBat, const std::string& opStr) {
    std::set<Val> uni;
    auto ops = parseOps(opStr, uni);
    auto universe = universeOf(uni);
    std::vector<std::unique_ptr<Rel>> rels;
    for (int i = 0; i < nrels; i++) rels.push_back(std::make_unique<Rel>());
    std::printf("J %ld %ld\nD sequential\n", job, gLine);
    int k = 0;
    auto dump = [&](const std::string& out) {
        std::printf("S %d %s", k, out.c_str());
        for (auto& r : rels) std::printf(" | %s", stateOf(*r).c_str());
        std::printf("\n");
    };
    dump("-");
    for (auto& op : ops) {
        k++;
        std::vector<std::string> ev;
        std::string out = applyOp(rels, op, ev);
        dump(out);
        for (auto& e : ev) std::printf("V %s\n", e.c_str());
        if (bat && (op.k == 'i' || op.k == 'A' || op.k == 'X')) {
            std::vector<std::string> q;
            for (int i = 0; i < nrels; i++) battery(*rels[i], i + 1, universe, q);
            for (auto& e : q) std::printf("V %s\n", e.c_str());
        }
    }
    std::vector<std::string> q;
    if (finalBat)
        for (int i = 0; i < nrels; i++) battery(*rels[i], i + 1, universe, q);
    for (auto& e : q) std::printf("V %s\n", e.c_str());
    std::printf("E\n");
}

// ---------------------------------------------------------------------------------------------------- concurrent inserts
struct CJob {
    std::vector<Op> setup;
    std::vector<std::vector<std::pair<Val, Val>>> progs;
    std::vector<Val> universe;
    int n;

    void finish(Rel& rel, const std::vector<std::string>& events, long job, const std::string& label) {
        std::printf("J %ld %ld\nD %s\n", job, gLine, label.c_str());
        for (auto& e : events) std::printf("V %s\n", e.c_str());
        std::vector<std::string> q;
        battery(rel, 1, universe, q);
        for (auto& e : q) std::printf("V %s\n", e.c_str());
        std::printf("E\n");
    }
    void doSetup(std::vector<std::unique_ptr<Rel>>& rels, std::vector<std::string>& events) {
        for (auto& op : setup) applyOp(rels, op, events);
    }
    template <typename Choose>
    void execCoop(long job, Choose choose, const std::string& label) {
        std::vector<std::unique_ptr<Rel>> rels;
        rels.push_back(std::make_unique<Rel>());
        Rel& rel = *rels[0];
        std::vector<std::string> events;
        doSetup(rels, events);
        CoopBE coop(n);
        g = &coop;
        std::vector<std::thread> th;
        for (int t = 0; t < n; t++)
            th.emplace_back([&, t] {
                coop.threadBody(t, [&, t] {
                    for (auto& p : progs[t]) {
                        coop.yield("op");
                        rel.insert(p.first, p.second);
                        events.push_back("insert 1 " + pr(p.first, p.second));  // at the return
                    }
                    coop.yield("op");
                });
            });
        coop.start();
        int cur = -1;
        long k = 0;
        bool live = true;
        std::size_t steps = 0;
        coop.policy = [&](int) {
            std::vector<int> enabled;
            for (int t = 0; t < n; t++)
                if (!coop.done[t]) enabled.push_back(t);
            if (enabled.empty()) return -1;
            int t = choose(k, enabled, cur, coop);
            if (t < 0) return -1;
            cur = t;
            steps++;
            if (trace) std::fprintf(stderr, "P %ld %d %s\n", k, t + 1, coop.lastPt[t].c_str());
            if (++k > 2000000) {
                live = false;
                return -1;
            }
            return t;
        };
        coop.run();
        if (live) live = coop.drain(2000000, [&](int) { steps++; });
        if (!live) {
            std::printf("J %ld %ld\nD %s\nLIVELOCK\nE\n", job, gLine, label.c_str());
            std::fflush(stdout);
            std::_Exit(3);
        }
        g = nullptr;
        for (auto& x : th) x.join();
        finish(rel, events, job, label + " steps=" + std::to_string(steps));
    }
    void runStress(long job, unsigned long long seed, unsigned permille) {
        std::vector<std::unique_ptr<Rel>> rels;
        rels.push_back(std::make_unique<Rel>());
        Rel& rel = *rels[0];
        std::vector<std::string> events;
        doSetup(rels, events);
        stressSeed = seed;
        stressPermille = permille;
        std::atomic<int> ready{0};
#pragma omp parallel num_threads(n)
        {
            int t = omp_get_thread_num();
            ready++;
            while (ready.load() < n) {
            }
            for (auto& p : progs[t]) rel.insert(p.first, p.second);
        }
        stressPermille = 0;
        for (auto& pg : progs)
            for (auto& p : pg) events.push_back("insert 1 " + pr(p.first, p.second));  // the closure does not depend on the order
        finish(rel, events, job, "stress");
    }
    struct Dev {
        long k;
        int t;
    };
    // default policy (keep the running thread; when it ends take the lowest enabled one; a thread that keeps arriving at the same
    // point is spinning on a lock and must let the others run) plus deviations
    void execDevs(long job, const std::vector<Dev>& devs, std::vector<std::vector<int>>* enabledAt, std::vector<int>* chosen) {
        int samePt = 0;
        std::string lastPt;
        std::string label = "D";
        for (auto& d : devs) label += (label.size() > 1 ? ":" : "") + std::to_string(d.k) + ":" + std::to_string(d.t + 1);
        execCoop(job,
                [&](long k, const std::vector<int>& en, int cur, CoopBE& coop) {
                    int pick = -1;
                    for (auto& d : devs)
                        if (d.k == k && std::find(en.begin(), en.end(), d.t) != en.end()) pick = d.t;
                    if (pick < 0) {
                        bool curEnabled = cur >= 0 && std::find(en.begin(), en.end(), cur) != en.end();
                        bool spinning = false;
                        if (curEnabled && coop.lastPt[cur] == lastPt) {
                            if (++samePt > 40 && en.size() > 1) curEnabled = false, spinning = true, samePt = 0;
                        } else
                            samePt = 0;
                        if (curEnabled) {
                            lastPt = coop.lastPt[cur];
                            pick = cur;
                        } else {
                            // cur has finished: the lowest enabled thread.  cur is spinning on a lock: the next enabled thread
                            // after it, cyclically, so that the lock holder gets its turn whichever thread it is
                            pick = en[0];
                            for (int e : en)
                                if (spinning ? e > cur : e != cur) {
                                    pick = e;
                                    break;
                                }
                        }
                    }
                    if (enabledAt) enabledAt->push_back(en);
                    if (chosen) chosen->push_back(pick);
                    return pick;
                },
                label);
    }
    void run(long& job, const std::string& schedStr) {
        if (schedStr[0] == 'R') {
            auto f = split(schedStr.substr(1), ':');
            Rng rng(std::stoull(f[0]));
            long steps = f.size() > 1 ? std::stol(f[1]) : 50;
            unsigned stay = f.size() > 2 ? (unsigned)std::stoul(f[2]) : 0;
            execCoop(job++,
                    [&](long k, const std::vector<int>& en, int cur, CoopBE&) {
                        if (k >= steps) return -1;
                        if (cur >= 0 && std::find(en.begin(), en.end(), cur) != en.end() && rng.next(100) < stay) return cur;
                        return en[rng.next((unsigned)en.size())];
                    },
                    schedStr);
        } else if (schedStr[0] == 'S') {
            auto f = split(schedStr.substr(1), ':');
            runStress(job++, std::stoull(f[0]), f.size() > 1 ? (unsigned)std::stoul(f[1]) : 0);
        } else if (schedStr[0] == 'D') {
            auto f = split(schedStr.substr(1), ':');
            std::vector<Dev> devs;
            for (std::size_t i = 0; i + 1 < f.size(); i += 2) devs.push_back({std::stol(f[i]), std::stoi(f[i + 1]) - 1});
            execDevs(job++, devs, nullptr, nullptr);
        } else if (schedStr[0] == 'P') {
            auto f = split(schedStr.substr(1), ':');
            int bound = std::stoi(f[0]);
            long maxSched = f.size() > 1 ? std::stol(f[1]) : 1000;
            std::deque<std::vector<Dev>> queue{{}};
            long count = 0;
            while (!queue.empty() && count < maxSched) {
                auto devs = queue.front();
                queue.pop_front();
                std::vector<std::vector<int>> enabledAt;
                std::vector<int> chosen;
                execDevs(job++, devs, &enabledAt, &chosen);
                count++;
                if ((int)devs.size() < bound) {
                    long from = devs.empty() ? 0 : devs.back().k + 1;
                    for (long k = from; k < (long)chosen.size(); k++)
                        for (int alt : enabledAt[k])
                            if (alt != chosen[k]) {
                                auto d2 = devs;
                                d2.push_back({k, alt});
                                queue.push_back(d2);
                            }
                }
            }
        }
    }
};

int main() {
    souffle::verif::yieldHandler().store(&yieldHandler);
    trace = std::getenv("EQREL_TRACE") != nullptr;
    std::string line;
    long job = 0;
    while (std::getline(std::cin, line)) {
        if (line.empty()) {
            gLine++;
            continue;
        }
        auto f = split(line, ' ');
        batteryRot = gLine;
        if (f[0] == "Q") {
            runQ(job++, std::stoi(f[1]), f[2] == "b", f[2] != "x", f.size() > 3 ? f[3] : "-");
        } else if (f[0] == "C") {
            CJob j;
            std::set<Val> uni;
            j.setup = parseOps(f[1], uni);
            for (auto& p : split(f[2], ';')) {
                std::vector<std::pair<Val, Val>> v;
                for (auto& t : split(p, ','))
                    if (!t.empty() && t != "-") {
                        auto ab = split(t, ':');
                        v.push_back({(Val)std::stoll(ab[0]), (Val)std::stoll(ab[1])});
                        uni.insert(v.back().first);
                        uni.insert(v.back().second);
                    }
                j.progs.push_back(v);
            }
            j.n = (int)j.progs.size();
            j.universe = universeOf(uni);
            j.run(job, f.size() > 3 ? f[3] : "R1:0:0");
        }
        std::fflush(stdout);
        gLine++;
    }
    return 0;
}
