// Runs schedules on the real souffle::DisjointSet under the cooperative scheduler coop_uf.h (yield point "uf.get" in
// DisjointSet::get = every atomic load / CAS of a block; "op" = operation boundary of this driver).
// stdin, one job per line:   <N> <setup> <progs> <schedule> [v]
//   setup    "u:0:2,u:1:3" or "-"        run by thread 0 alone, before the workers (sequential pre-history)
//   progs    "u:2:3,f:2;s:2:3"           one program per worker thread 1..n;  ops  u:a:b  s:a:b  f:a
//   schedule "0,0,1,2,2,1"               explicit thread per step; the rest is drained round-robin
//            "R<seed>:<steps>:<sw>"      seeded random: keep the running thread, switch with probability sw/1000
//            "D<bound>:<max>"            bounded DFS by re-execution: every schedule with <= bound preemptions (at most
//                                        <max> executions); one execution is printed per distinct history, then
//                                        "D <job> <executions> <distinct histories>"
//   v        print the arrays after every step (lines "S ...") - used for step-by-step comparison with the spec
// stdout per execution:
//   J <job index>
//   S <k> <t> <p0,p1,..> <r0,r1,..> <pt0,pt1,..> <ip0,ip1,..> <res0,res1,..>        (only with v)
//   ERR <text>                                 explicit schedule not executable
//   LIVELOCK                                   drain needed > 100000 rounds (the unfinished calls are abandoned)
//   V call <t> <op> <a> <b> | V ret <t> <r> | V st <p..> <r..> | V final <p..>   API history + observed arrays
//   X <executed schedule>                      complete thread sequence (deterministic replay: use it as schedule)
//   E
#include "coop_uf.h"
#include "souffle/datastructure/UnionFind.h"
#include <cstdio>
#include <iostream>
#include <map>
#include <memory>
#include <set>
#include <sstream>
#include <unistd.h>
using namespace souffle;
static CoopUF* g = nullptr;
static void yieldHandler(const char* pt, const void*) {
    if (g) g->yield(pt);
}
static std::vector<std::string> split(const std::string& s, char c) {
    std::vector<std::string> r;
    std::stringstream ss(s);
    std::string x;
    while (std::getline(ss, x, c)) r.push_back(x);
    return r;
}
struct Op {
    char k;
    long a, b;
};
static std::vector<Op> parseProg(const std::string& s) {
    std::vector<Op> r;
    for (auto& o : split(s, ',')) {
        if (o.empty() || o == "-") continue;
        auto p = split(o, ':');
        Op op{p[0][0], std::stol(p[1]), p.size() > 2 ? std::stol(p[2]) : std::stol(p[1])};
        r.push_back(op);
    }
    return r;
}
struct Job {
    int N;
    std::vector<std::vector<Op>> progs;  // progs[0] = setup
    bool verbose;
};
struct Decision {
    long step;
    int thread;
};
// One execution.  Policy: explicit schedule `sched` (if useSched), else random (if rnd), else DFS policy given by `dec`
// (run the current thread; at step dec[i].step switch to dec[i].thread; when the current thread finishes take the lowest
// alive).  Returns the executed schedule and, per step, the set of alive workers before the step (for DFS branching).
struct Exec {
    std::string out;      // the text of this execution (J .. E)
    std::string history;  // the V lines only (key for de-duplication inside a DFS job)
    std::vector<int> executed;
    std::vector<unsigned> aliveBefore;  // bitmask of threads not done, before step k
    std::vector<int> current;           // thread that ran at step k
    bool livelock = false;
};
static std::string arr(const std::vector<long>& v) {
    std::string s;
    for (std::size_t i = 0; i < v.size(); i++) s += (i ? "," : "") + std::to_string(v[i]);
    return s;
}
static Exec execute(long jobIdx, const Job& job, const std::vector<int>* sched, const unsigned long long* rndSeed, int rndSteps,
        int rndSwitch, const std::vector<Decision>* dec) {
    const int N = job.N, n = (int)job.progs.size();  // threads 0..n-1 (0 = setup)
    // one DisjointSet per size, created once with makeNode() and put back into the freshly-made state for every execution
    // (constructing a PiggyList zeroes a 512 KB block: 70 us per execution)
    static std::map<int, std::unique_ptr<DisjointSet>> objects;
    auto& slot = objects[N];
    if (!slot) {
        slot.reset(new DisjointSet());
        for (int i = 0; i < N; i++) slot->makeNode();
    }
    DisjointSet& ds = *slot;
    for (int i = 0; i < N; i++) ds.a_blocks.get(i).store(DisjointSet::pr2b(i, 0));
    CoopUF coop(n);
    g = &coop;
    std::vector<std::string> res(n, "none");
    std::vector<int> ip(n, 1);
    std::vector<std::string> events;
    for (int t = 0; t < n; t++)
        coop.spawn(t, [&, t] {
            {
                for (const Op& o : job.progs[t]) {
                    coop.yield("op");  // operation boundary == spec pc "next"
                    events.push_back("call " + std::to_string(t) + " " + std::string(1, o.k) + " " + std::to_string(o.a) + " " +
                                     std::to_string(o.b));
                    std::string r;
                    long rv = 0;
                    if (o.k == 'u') {
                        ds.unionNodes(o.a, o.b);
                        r = "u";
                    } else if (o.k == 's') {
                        bool s = ds.sameSet(o.a, o.b);
                        r = s ? "T" : "F";
                        rv = s;
                    } else {
                        rv = (long)ds.findNode(o.a);
                        r = std::to_string(rv);
                    }
                    events.push_back("ret " + std::to_string(t) + " " + std::to_string(rv));
                    res[t] = r;  // results become visible when the call returns
                    ip[t]++;
                }
                coop.yield("op");
            }
        });
    std::vector<long> par(N), rk(N), lastPar, lastRk;
    auto observe = [&] {
        for (int i = 0; i < N; i++) {
            block_t b = ds.a_blocks.get(i).load();
            par[i] = (long)DisjointSet::b2p(b);
            rk[i] = (long)DisjointSet::b2r(b);
        }
        if (par != lastPar || rk != lastRk) {
            events.push_back("st " + arr(par) + " " + arr(rk));
            lastPar = par;
            lastRk = rk;
        }
    };
    Exec ex;
    std::string& out = ex.out;
    out += "J " + std::to_string(jobIdx) + "\n";
    auto dump = [&](int t, long k) {
        if (!job.verbose) return;
        out += "S " + std::to_string(k) + " " + std::to_string(t) + " " + arr(par) + " " + arr(rk) + " ";
        for (int i = 0; i < n; i++) out += (i ? "," : "") + coop.lastPt[i];
        out += " ";
        for (int i = 0; i < n; i++) out += (i ? "," : "") + std::to_string(ip[i]);
        out += " ";
        for (int i = 0; i < n; i++) out += (i ? "," : "") + res[i];
        out += "\n";
    };
    for (int t = 0; t < n; t++) coop.step(t);  // bring every thread to its first operation boundary
    observe();
    dump(-1, 0);
    long k = 0;
    auto setupDone = [&] { return coop.done[0] || (coop.lastPt[0] == "op" && ip[0] > (int)job.progs[0].size()); };
    auto alive = [&] {
        unsigned m = 0;
        for (int t = 0; t < n; t++)
            if (!coop.done[t]) m |= 1u << t;
        return m;
    };
    auto doStep = [&](int t) {
        ex.aliveBefore.push_back(alive());
        bool ok = coop.step(t);
        if (!ok) {
            ex.aliveBefore.pop_back();
            return false;
        }
        k++;
        ex.executed.push_back(t);
        observe();
        dump(t, k);
        return true;
    };
    auto drain = [&] {
        bool any = true;
        long guard = 0;
        while (any && ++guard < 100000) {
            any = false;
            for (int t = 0; t < n; t++)
                if (t == 0 || setupDone()) any |= doStep(t);
        }
        if (guard >= 100000) ex.livelock = true;
    };
    if (sched != nullptr) {
        for (int t : *sched) {
            if (t < 0 || t >= n) {
                out += "ERR no thread " + std::to_string(t) + " at step " + std::to_string(k + 1) + "\n";
                break;
            }
            if (t > 0 && !setupDone()) {
                out += "ERR thread " + std::to_string(t) + " scheduled before the set-up finished at step " + std::to_string(k + 1) + "\n";
                break;
            }
            if (!doStep(t)) {
                out += "ERR thread " + std::to_string(t) + " already finished at step " + std::to_string(k + 1) + "\n";
                break;
            }
        }
    } else {
        long guard = 0;
        while (!coop.done[0] && ++guard < 100000) doStep(0);  // the pre-history runs alone
        if (rndSeed != nullptr) {
            unsigned long long st = *rndSeed * 6364136223846793005ull + 1442695040888963407ull;
            auto next = [&] {
                st = st * 6364136223846793005ull + 1442695040888963407ull;
                return (unsigned)(st >> 33);
            };
            int cur = -1;
            for (int i = 0; i < rndSteps; i++) {
                unsigned m = alive() & ~1u;
                if (m == 0) break;
                if (cur < 0 || !(m >> cur & 1) || (int)(next() % 1000) < rndSwitch) {
                    int cnt = __builtin_popcount(m), pick = (int)(next() % (unsigned)cnt);
                    for (int t = 1; t < n; t++)
                        if (m >> t & 1) {
                            if (pick-- == 0) {
                                cur = t;
                                break;
                            }
                        }
                }
                doStep(cur);
            }
        } else if (dec != nullptr) {
            std::size_t di = 0;
            int cur = -1;
            long wk = 0;  // worker step index
            guard = 0;
            while (++guard < 100000) {
                unsigned m = alive() & ~1u;
                if (m == 0) break;
                if (di < dec->size() && (*dec)[di].step == wk) {
                    cur = (*dec)[di].thread;
                    di++;
                } else if (cur < 0 || !(m >> cur & 1)) {
                    for (int t = 1; t < n; t++)
                        if (m >> t & 1) {
                            cur = t;
                            break;
                        }
                }
                if (!(m >> cur & 1)) break;  // stale decision (cannot happen: decisions come from aliveBefore)
                ex.current.push_back(cur);
                doStep(cur);
                wk++;
            }
            if (guard >= 100000) ex.livelock = true;
        }
    }
    if (!ex.livelock) drain();
    if (ex.livelock) {
        for (auto& e : events) ex.history += "V " + e + "\n";
        std::string xs;
        for (std::size_t i = 0; i < ex.executed.size() && i < 2000; i++) xs += (i ? "," : "") + std::to_string(ex.executed[i]);
        out += ex.history + "LIVELOCK\nX " + (xs.empty() ? std::string("-") : xs) + "\nE\n";
        g = nullptr;
        return ex;  // the unfinished contexts are abandoned
    }
    observe();
    events.push_back("final " + arr(par));
    for (auto& e : events) ex.history += "V " + e + "\n";
    std::string xs;
    for (std::size_t i = 0; i < ex.executed.size(); i++) xs += (i ? "," : "") + std::to_string(ex.executed[i]);
    out += ex.history + "X " + (xs.empty() ? std::string("-") : xs) + "\nE\n";
    g = nullptr;
    return ex;
}
// bounded DFS by re-execution: decisions = (worker step index, thread); cost 1 if the running thread was still alive
static long dfs(long jobIdx, const Job& job, std::vector<Decision>& dec, int budget, long maxExec, long& count,
        std::set<std::string>& seen) {
    if (count >= maxExec) return count;
    count++;
    Exec ex = execute(jobIdx, job, nullptr, nullptr, 0, 0, &dec);
    if (seen.insert(ex.history).second) std::fputs(ex.out.c_str(), stdout);  // one representative schedule per distinct history
    // worker steps start after the set-up; aliveBefore/current are indexed consistently for worker steps only
    long first = dec.empty() ? 0 : dec.back().step + 1;
    // ex.current has one entry per worker step; in aliveBefore the steps of the set-up thread come first
    long setupSteps = 0;
    while (setupSteps < (long)ex.executed.size() && ex.executed[setupSteps] == 0) setupSteps++;
    for (long wk = first; wk < (long)ex.current.size(); wk++) {
        unsigned m = ex.aliveBefore[setupSteps + wk] & ~1u;
        int cur = ex.current[wk];
        int prev = wk > 0 ? ex.current[wk - 1] : -1;
        bool prevAlive = prev >= 0 && (m >> prev & 1);
        for (int t = 1; t < (int)job.progs.size(); t++) {
            if (!(m >> t & 1) || t == cur) continue;
            int cost = prevAlive ? 1 : 0;  // leaving a thread that could continue = preemption
            if (cost > budget) continue;
            dec.push_back({wk, t});
            dfs(jobIdx, job, dec, budget - cost, maxExec, count, seen);
            dec.pop_back();
            if (count >= maxExec) return count;
        }
    }
    return count;
}
int main() {
    souffle::verif::yieldHandler().store(&yieldHandler);
    std::string line;
    long jobIdx = 0;
    while (std::getline(std::cin, line)) {
        if (line.empty()) continue;
        auto f = split(line, ' ');
        if (f.size() < 4) {
            std::printf("J %ld\nERR malformed job\nX -\nE\n", jobIdx++);
            continue;
        }
        Job job;
        job.N = std::stoi(f[0]);
        job.progs.push_back(parseProg(f[1]));
        for (auto& p : split(f[2], ';')) job.progs.push_back(parseProg(p));
        if (!f[2].empty() && f[2].back() == ';') job.progs.push_back({});
        job.verbose = f.size() > 4 && f[4] == "v";
        const std::string& s = f[3];
        if (s[0] == 'R') {
            auto p = split(s.substr(1), ':');
            unsigned long long seed = std::stoull(p[0]);
            int steps = p.size() > 1 ? std::stoi(p[1]) : 40, sw = p.size() > 2 ? std::stoi(p[2]) : 1000;
            std::fputs(execute(jobIdx, job, nullptr, &seed, steps, sw, nullptr).out.c_str(), stdout);
        } else if (s[0] == 'D') {
            auto p = split(s.substr(1), ':');
            int bound = std::stoi(p[0]);
            long maxExec = p.size() > 1 ? std::stol(p[1]) : 2000, count = 0;
            std::vector<Decision> dec;
            std::set<std::string> seen;
            dfs(jobIdx, job, dec, bound, maxExec, count, seen);
            std::printf("D %ld %ld %zu\n", jobIdx, count, seen.size());  // executions explored, distinct histories
        } else {
            std::vector<int> sched;
            for (auto& x : split(s, ','))
                if (!x.empty() && x != "-") sched.push_back(std::stoi(x));
            std::fputs(execute(jobIdx, job, &sched, nullptr, 0, 0, nullptr).out.c_str(), stdout);
        }
        jobIdx++;
        std::fflush(stdout);
    }
    return 0;
}
