// Drives the real souffle::Trie<1..4> / souffle::SparseBitMap<MODEL_BITS> (Brie.h) for property C27.
// stdin: one job per line
//   A <progs> <sched>             SparseBitMap<MODEL_BITS>::set under the cooperative scheduler, state dumped after every step
//                                 progs "0,9;4" = model indices per thread (index m is mapped to (m>>LW)*64 + (m & (2^LW-1)))
//   T <dim> <h|n>[b] <progs> <sched> Trie<dim>::insert by several threads, then the sequential query phase (b: with lower/upper_bound)
//                                 progs "1:2,3:4;5:6" (tuples ':'-joined, ',' between tuples, ';' between threads); h = the
//                                 thread keeps one op_context (temporal-locality hints), n = a fresh one per call
//   sched: "1,2,2,1"              explicit (1-based thread per step), then round-robin drain
//          R<seed>:<steps>:<stay> seeded random: with probability stay% keep the running thread, else pick one at random
//          P<bound>:<max>         systematic: every schedule with at most <bound> preemptions (at most <max> schedules)
//          S<seed>:<permille>     real threads (OpenMP), no scheduler; random sched_yield at the hook points
// stdout per executed schedule: "J <job>" / "D <schedule executed>" / (mode A) "S ..." state lines /
//   "V <event>" API events in history order / "LIVELOCK" / "ERR .." / "E"
#include "coop_be.h"
#include "souffle/datastructure/Brie.h"
#include <algorithm>
#include <atomic>
#include <cstdio>
#include <deque>
#include <iostream>
#include <map>
#include <omp.h>
#include <set>
#include <sstream>
#include <sys/wait.h>
#include <unistd.h>
#ifndef MODEL_BITS
#define MODEL_BITS 1
#endif
#ifndef MODEL_LW
#define MODEL_LW 1
#endif
using namespace souffle;
static CoopBE* g = nullptr;
static long gLine = 0;  // input line of the running job
static std::atomic<unsigned> stressPermille{0};
static std::atomic<unsigned long long> stressSeed{0};
static void yieldHandler(const char* pt, const void*) {
    if (g) {
        g->yield(pt);
        return;
    }
    unsigned pm = stressPermille.load(std::memory_order_relaxed);
    if (pm) {
        static thread_local unsigned long long st = 0;
        if (!st) st = stressSeed.load() * 0x9E3779B97F4A7C15ull + std::hash<std::thread::id>()(std::this_thread::get_id()) + 1;
        st ^= st >> 12;
        st ^= st << 25;
        st ^= st >> 27;
        unsigned long long r = st * 0x2545F4914F6CDD1Dull;
        if ((r >> 20) % 1000 < pm) std::this_thread::yield();
    }
}
static std::vector<std::string> split(const std::string& s, char c) {
    std::vector<std::string> r;
    std::stringstream ss(s);
    std::string x;
    while (std::getline(ss, x, c)) r.push_back(x);
    return r;
}
struct Rng {
    unsigned long long st;
    explicit Rng(unsigned long long s) : st(s * 6364136223846793005ull + 1442695040888963407ull) {}
    unsigned next(unsigned n) {
        st = st * 6364136223846793005ull + 1442695040888963407ull;
        return (unsigned)((st >> 33) % n);
    }
};

// ---------------------------------------------------------------- mode A: SparseBitMap<MODEL_BITS> vs spec/BrieImpl.tla
using BM = SparseBitMap<MODEL_BITS>;
using SA = BM::data_store_t;
static unsigned long long realIndex(int m) {
    return ((unsigned long long)(m >> MODEL_LW) << 6) | (unsigned long long)(m & ((1 << MODEL_LW) - 1));
}
static void serNode(const SA::Node* n, int level, const SA::Node* container, bool isRoot, std::string& out) {
    if (!n) {
        out += "-";
        return;
    }
    int p = n->parent == nullptr ? 0 : (!isRoot && n->parent == container ? 1 : 2);
    out += (level == 0 ? "L" : "N") + std::to_string(p) + "(";
    for (int x = 0; x < SA::NUM_CELLS; x++) {
        if (x) out += ",";
        if (level == 0)
            out += std::to_string((unsigned long long)n->cell[x].value);
        else
            serNode(n->cell[x].ptr, level - 1, n, false, out);
    }
    out += ")";
}
// (level, base) of the node `target` inside the tree, "?" if absent
static bool findNode(const SA::Node* n, int level, unsigned long long base, const SA::Node* target, std::string& out) {
    if (!n) return false;
    if (n == target) {
        out = std::to_string(level) + "@" + std::to_string(base);
        return true;
    }
    if (level == 0) return false;
    for (int x = 0; x < SA::NUM_CELLS; x++) {
        unsigned long long span = 1ull << (MODEL_BITS * level);
        if (findNode(n->cell[x].ptr, level - 1, base + x * span, target, out)) return true;
    }
    return false;
}

static void runA(long job, const std::string& progStr, const std::string& schedStr) {
    std::vector<std::string> progs = split(progStr, ';');
    if (!progStr.empty() && progStr.back() == ';') progs.push_back("");
    int n = (int)progs.size();
    BM bm;
    CoopBE coop(n);
    g = &coop;
    std::vector<std::string> res(n, "");
    std::vector<int> ip(n, 1);
    std::vector<std::string> events;
    std::vector<std::thread> th;
    // the height of the real tree = the last height published while the root was even (needed to serialise while locked)
    for (int t = 0; t < n; t++)
        th.emplace_back([&, t] {
            coop.threadBody(t, [&, t] {
                for (auto& op : split(progs[t], ',')) {
                    if (op == "-" || op.empty()) continue;
                    coop.yield("op");
                    int m = std::stoi(op);
                    events.push_back("call " + std::to_string(t + 1) + " " + std::to_string(m));
                    bool r = bm.set(realIndex(m));
                    events.push_back("ret " + std::to_string(t + 1) + " " + std::to_string((int)r));
                    res[t] += r ? "T" : "F";
                    ip[t]++;
                }
                coop.yield("op");
            });
        });
    int treeLevels = 0;  // height of the tree hanging off the (possibly locked) root pointer
    auto dump = [&](int t, int k) {
        const SA& a = bm.store;
        unsigned long long rootRaw = (unsigned long long)a.unsynced.root, firstRaw = (unsigned long long)a.unsynced.first;
        bool rootOdd = rootRaw & 1, firstOdd = firstRaw & 1;
        const SA::Node* root = (const SA::Node*)(rootRaw & ~1ull);
        const SA::Node* first = (const SA::Node*)(firstRaw & ~1ull);
        if (!rootOdd) treeLevels = (int)a.unsynced.levels;
        std::string tree;
        serNode(root, treeLevels, nullptr, true, tree);
        std::string fpos = "-";
        if (first && !findNode(root, treeLevels, 0, first, fpos)) fpos = "?";
        // base of the root is not stored in the nodes: report positions relative to the root and the root's offset separately
        std::printf("S %d %d %d %u %llu %d %s %s ", k, t + 1, (int)rootOdd, (unsigned)a.unsynced.levels,
                (unsigned long long)a.unsynced.offset, (int)firstOdd,
                a.unsynced.firstOffset == std::numeric_limits<unsigned long long>::max() ? "inf" : std::to_string(a.unsynced.firstOffset).c_str(),
                fpos.c_str());
        for (int i = 0; i < n; i++) std::printf("%s%s", i ? "," : "", coop.lastPt[i].c_str());
        std::printf(" ");
        for (int i = 0; i < n; i++) std::printf("%s%d", i ? "," : "", ip[i]);
        std::printf(" ");
        for (int i = 0; i < n; i++) std::printf("%s%s", i ? "," : "", res[i].empty() ? "-" : res[i].c_str());
        std::printf(" %d %s\n", treeLevels, tree.c_str());
    };
    std::printf("J %ld %ld\n", job, gLine);
    coop.start();
    dump(-1, 0);
    std::vector<int> sched;
    for (auto& x : split(schedStr, ','))
        if (!x.empty()) sched.push_back(std::stoi(x));
    std::string err;
    std::size_t k = 0;
    coop.policy = [&](int from) {
        if (from >= 0) dump(from, (int)k);
        if (k >= sched.size()) return -1;
        int t = sched[k++] - 1;
        if (t < 0 || t >= n || coop.done[t]) {
            err = "thread " + std::to_string(t + 1) + " already finished at step " + std::to_string(k);
            return -1;
        }
        return t;
    };
    coop.run();
    if (!err.empty()) std::printf("ERR %s\n", err.c_str());
    if (!coop.drain(200000)) {
        std::printf("LIVELOCK\nE\n");
        std::fflush(stdout);
        std::_Exit(3);
    }
    dump(-1, -1);
    g = nullptr;
    for (auto& x : th) x.join();
    for (auto& e : events) std::printf("V %s\n", e.c_str());
    // sequential queries on the bitmap (model indices 0..(16<<..) are mapped back)
    auto back = [](unsigned long long r) { return (long long)(((r >> 6) << MODEL_LW) | (r & 63)); };
    {
        std::string s;
        long cnt = 0;
        for (auto it = bm.begin(); it != bm.end() && cnt < 1000; ++it, ++cnt) s += (s.empty() ? "" : ",") + std::to_string(back(*it));
        std::printf("V iter %s\n", s.empty() ? "-" : s.c_str());
        std::printf("V size %zu\n", bm.size());
        for (int m = 0; m < 20; m++) {
            std::printf("V contains %d %d\n", m, (int)bm.test(realIndex(m)));
            auto f = bm.find(realIndex(m));
            if (f == bm.end())
                std::printf("V find %d -\n", m);
            else
                std::printf("V find %d %lld\n", m, back(*f));
        }
    }
    std::printf("E\n");
}

// ---------------------------------------------------------------- mode T: Trie<D>
template <unsigned D>
using Tup = typename Trie<D>::entry_type;
template <unsigned D>
static std::string str(const Tup<D>& t) {
    std::string s;
    for (unsigned i = 0; i < D; i++) s += (i ? ":" : "") + std::to_string(t[i]);
    return s;
}
template <unsigned D>
static Tup<D> parseTup(const std::string& s) {
    Tup<D> t{};
    auto f = split(s, ':');
    for (unsigned i = 0; i < D && i < f.size(); i++) t[i] = (RamDomain)std::stoll(f[i]);
    return t;
}
template <unsigned D, typename It>
static std::string listRange(It b, It e, std::size_t cap) {
    std::string s;
    std::size_t c = 0;
    for (; b != e && c < cap; ++b, ++c) s += (s.empty() ? "" : ",") + str<D>(*b);
    if (c >= cap && b != e) s += ",OVERFLOW";
    return s.empty() ? "-" : s;
}
template <unsigned D, unsigned K>
struct BoundsQ {
    static void run(const Trie<D>& trie, const std::vector<Tup<D>>& probes, std::size_t cap, typename Trie<D>::op_context& ctxt,
            bool hints, std::vector<std::string>& out) {
        std::set<std::vector<RamDomain>> seen;
        for (auto& p : probes) {
            std::vector<RamDomain> pre(p.begin(), p.begin() + K);
            if (!seen.insert(pre).second) continue;
            if (!hints) {
                auto r = trie.template getBoundaries<K>(p);
                out.push_back("bounds " + std::to_string(K) + " " + str<D>(p) + " " + listRange<D>(r.begin(), r.end(), cap));
            } else {
                auto r2 = trie.template getBoundaries<K>(p, ctxt);  // with a context shared by consecutive queries
                out.push_back("bounds " + std::to_string(K) + " " + str<D>(p) + " " + listRange<D>(r2.begin(), r2.end(), cap));
            }
        }
        if constexpr (K > 0) BoundsQ<D, K - 1>::run(trie, probes, cap, ctxt, hints, out);
    }
};
template <unsigned D>
static void queries(const Trie<D>& trie, const std::vector<std::vector<Tup<D>>>& progs, bool hints, bool ordered, std::size_t maxProbes,
        std::vector<std::string>& out) {
    std::vector<Tup<D>> all;
    std::set<RamDomain> keys;
    for (auto& p : progs)
        for (auto& t : p) {
            all.push_back(t);
            for (auto x : t) keys.insert(x);
        }
    bool anyNegative = false;
    for (auto k : keys) anyNegative = anyNegative || k < 0;
    std::size_t cap = 4 * all.size() + 8;
    out.push_back("iter " + listRange<D>(trie.begin(), trie.end(), cap));
    out.push_back("size " + std::to_string(trie.size()));
    // probes: every inserted tuple, and its neighbours obtained by replacing one component by an adjacent value or another key
    std::vector<Tup<D>> probes;
    std::set<Tup<D>> seen;
    auto add = [&](const Tup<D>& t) {
        if (probes.size() < maxProbes && seen.insert(t).second) probes.push_back(t);
    };
    for (auto& t : all) add(t);
    for (auto& t : all)
        for (unsigned i = 0; i < D; i++) {
            Tup<D> u = t;
            if (t[i] != std::numeric_limits<RamDomain>::max()) {
                u[i] = t[i] + 1;
                add(u);
            }
            if (t[i] != std::numeric_limits<RamDomain>::min()) {
                u[i] = t[i] - 1;
                add(u);
            }
            for (auto k : keys) {
                u[i] = k;
                add(u);
            }
        }
    if (all.empty()) add(Tup<D>{});
    typename Trie<D>::op_context cctx, fctx, bctx;
    for (auto& p : probes) {
        if (!hints) {
            out.push_back("contains " + str<D>(p) + " " + std::to_string((int)trie.contains(p)));
            auto f = trie.find(p);
            out.push_back("find " + str<D>(p) + " " + (f == trie.end() ? "-" : str<D>(*f)));
        } else {  // with contexts shared by consecutive queries
            out.push_back("contains " + str<D>(p) + " " + std::to_string((int)trie.contains(p, cctx)));
            auto f2 = trie.find(p, fctx);
            out.push_back("find " + str<D>(p) + " " + (f2 == trie.end() ? "-" : str<D>(*f2)));
        }

    }
    BoundsQ<D, D>::run(trie, probes, cap, bctx, hints, out);
    // lower_bound / upper_bound are not named by the property statement, and they abort (assertion) on some sparse key sets:
    // they run in a forked child so that an abort cannot take the driver down; where their own preconditions hold only
    // (no negative key in the trie, no component at INT_MAX, where "sub[0] += 1" overflows)
    if (ordered && !anyNegative) {
        for (auto& e : out) std::printf("V %s\n", e.c_str());
        out.clear();
        std::fflush(stdout);
        pid_t pid = fork();
        if (pid == 0) {
            for (auto& p : probes) {
                bool ok = true;
                for (auto x : p) ok = ok && x >= 0 && x < std::numeric_limits<RamDomain>::max();
                if (!ok) continue;
                auto lb = trie.lower_bound(p);
                std::printf("V lower %s %s\n", str<D>(p).c_str(), lb == trie.end() ? "-" : str<D>(*lb).c_str());
                std::fflush(stdout);
                auto ub = trie.upper_bound(p);
                std::printf("V upper %s %s\n", str<D>(p).c_str(), ub == trie.end() ? "-" : str<D>(*ub).c_str());
                std::fflush(stdout);
            }
            std::_Exit(0);
        }
        int status = 0;
        waitpid(pid, &status, 0);
        if (!(WIFEXITED(status) && WEXITSTATUS(status) == 0))
            std::printf("O lower_bound/upper_bound aborted (status %d) after the last answer above\n", status);
    }
    for (unsigned chunks : {1u, 2u, 3u, 7u, 500u}) {
        std::string s;
        auto parts = trie.partition(chunks);
        for (auto& r : parts) s += listRange<D>(r.begin(), r.end(), cap) + "|";
        out.push_back("part " + std::to_string(chunks) + " " + (s.empty() ? "|" : s));
    }
}

template <unsigned D>
struct TrieJob {
    std::vector<std::vector<Tup<D>>> progs;
    bool hints;
    bool ordered = false;  // also query lower_bound / upper_bound (in a forked child)
    int n;
    // one execution under the cooperative scheduler.  choose(k, enabled, cur) -> thread to run, or -1 to stop and drain.
    template <typename Choose>
    void execCoop(long job, Choose choose, const std::string& label) {
        Trie<D> trie;
        CoopBE coop(n);
        g = &coop;
        std::vector<std::string> events;
        std::vector<std::thread> th;
        for (int t = 0; t < n; t++)
            th.emplace_back([&, t] {
                coop.threadBody(t, [&, t] {
                    typename Trie<D>::op_context ctx;
                    for (auto& tup : progs[t]) {
                        coop.yield("op");
                        events.push_back("call " + std::to_string(t + 1) + " " + str<D>(tup));
                        bool r;
                        if (hints)
                            r = trie.insert(tup, ctx);
                        else
                            r = trie.insert(tup);
                        events.push_back("ret " + std::to_string(t + 1) + " " + std::to_string((int)r));
                    }
                    coop.yield("op");
                });
            });
        std::vector<int> executed;
        coop.start();
        int cur = -1;
        long k = 0;
        bool live = true;
        coop.policy = [&](int from) {
            (void)from;
            std::vector<int> enabled;
            for (int t = 0; t < n; t++)
                if (!coop.done[t]) enabled.push_back(t);
            if (enabled.empty()) return -1;
            int t = choose(k, enabled, cur, coop);
            if (t < 0) return -1;
            executed.push_back(t + 1);
            cur = t;
            if (++k > 400000) {
                live = false;
                return -1;
            }
            return t;
        };
        coop.run();
        if (live) live = coop.drain(200000, [&](int t) { executed.push_back(t + 1); });
        std::printf("J %ld %ld\nD %s steps=%zu\n", job, gLine, label.c_str(), executed.size());
        if (!live) {
            std::printf("LIVELOCK\nE\n");
            std::fflush(stdout);
            std::_Exit(3);  // threads are stuck inside the container: cannot be joined
        }
        g = nullptr;
        for (auto& x : th) x.join();
        for (auto& e : events) std::printf("V %s\n", e.c_str());
        std::vector<std::string> q;
        queries<D>(trie, progs, hints, ordered, 16, q);
        for (auto& e : q) std::printf("V %s\n", e.c_str());
        std::printf("E\n");
        lastSteps = executed;
    }
    std::vector<int> lastSteps;

    void runStress(long job, unsigned long long seed, unsigned permille) {
        Trie<D> trie;
        std::atomic<long> stamp{0};
        struct Ev {
            long s;
            std::string e;
        };
        std::vector<std::vector<Ev>> evs(n);
        stressSeed = seed;
        stressPermille = permille;
        std::atomic<int> ready{0};
#pragma omp parallel num_threads(n)
        {
            int t = omp_get_thread_num();
            typename Trie<D>::op_context ctx;
            ready++;
            while (ready.load() < n) {
            }
            for (auto& tup : progs[t]) {
                long s1 = stamp.fetch_add(1);
                bool r = hints ? trie.insert(tup, ctx) : trie.insert(tup);
                long s2 = stamp.fetch_add(1);
                evs[t].push_back({s1, "call " + std::to_string(t + 1) + " " + str<D>(tup)});
                evs[t].push_back({s2, "ret " + std::to_string(t + 1) + " " + std::to_string((int)r)});
            }
        }
        stressPermille = 0;
        std::vector<Ev> allEv;
        for (auto& v : evs) allEv.insert(allEv.end(), v.begin(), v.end());
        std::sort(allEv.begin(), allEv.end(), [](const Ev& a, const Ev& b) { return a.s < b.s; });
        std::printf("J %ld %ld\nD stress\n", job, gLine);
        for (auto& e : allEv) std::printf("V %s\n", e.e.c_str());
        std::vector<std::string> q;
        queries<D>(trie, progs, hints, ordered, 40, q);
        for (auto& e : q) std::printf("V %s\n", e.c_str());
        std::printf("E\n");
    }

    void run(long& job, const std::string& schedStr) {
        if (schedStr.empty() || schedStr[0] == 'R') {
            auto f = split(schedStr.empty() ? "R1:0:0" : schedStr.substr(1), ':');
            Rng rng(std::stoull(f[0]));
            long steps = f.size() > 1 ? std::stol(f[1]) : 50;
            unsigned stay = f.size() > 2 ? (unsigned)std::stoul(f[2]) : 0;
            execCoop(job++,
                    [&](long k, const std::vector<int>& en, int cur, CoopBE&) {
                        if (k >= steps) return -1;
                        if (cur >= 0 && std::find(en.begin(), en.end(), cur) != en.end() && rng.next(100) < stay) return cur;
                        return en[rng.next((unsigned)en.size())];
                    },
                    schedStr);
        } else if (schedStr[0] == 'S') {
            auto f = split(schedStr.substr(1), ':');
            runStress(job++, std::stoull(f[0]), f.size() > 1 ? (unsigned)std::stoul(f[1]) : 0);
        } else if (schedStr[0] == 'P') {
            auto f = split(schedStr.substr(1), ':');
            int bound = std::stoi(f[0]);
            long maxSched = f.size() > 1 ? std::stol(f[1]) : 1000;
            // stateless search: a schedule = the default policy (keep running the current thread; when it ends take the lowest
            // enabled one) plus at most <bound> preemptions (step index, thread)
            struct Dev {
                long k;
                int t;
            };
            std::deque<std::vector<Dev>> stack{{}};  // breadth first: fewer preemptions first
            long count = 0;
            while (!stack.empty() && count < maxSched) {
                std::vector<Dev> devs = stack.front();
                stack.pop_front();
                std::vector<std::vector<int>> enabledAt;
                std::vector<int> chosen;
                int samePt = 0;
                std::string lastPt;
                std::string label = "P";
                for (auto& d : devs) label += " " + std::to_string(d.k) + ">" + std::to_string(d.t + 1);
                execCoop(job++,
                        [&](long k, const std::vector<int>& en, int cur, CoopBE& coop) {
                            int pick = -1;
                            for (auto& d : devs)
                                if (d.k == k && std::find(en.begin(), en.end(), d.t) != en.end()) pick = d.t;
                            if (pick < 0) {
                                bool curEnabled = cur >= 0 && std::find(en.begin(), en.end(), cur) != en.end();
                                bool spinning = false;
                                // a thread spinning at a locked root/first pointer must let the lock holder run
                                if (curEnabled && coop.lastPt[cur] == lastPt) {
                                    if (++samePt > 6 && en.size() > 1) curEnabled = false, spinning = true, samePt = 0;
                                } else
                                    samePt = 0;
                                if (curEnabled) {
                                    lastPt = coop.lastPt[cur];
                                    pick = cur;
                                } else {
                                    // cur has finished: the lowest enabled thread.  cur is spinning on the locked root /
                                    // first pointer: the next enabled thread after it, cyclically, so that the lock holder
                                    // gets its turn whichever thread it is
                                    pick = en[0];
                                    for (int e : en)
                                        if (spinning ? e > cur : e != cur) {
                                            pick = e;
                                            break;
                                        }
                                }
                            }
                            enabledAt.push_back(en);
                            chosen.push_back(pick);
                            return pick;
                        },
                        label);
                count++;
                if ((int)devs.size() < bound) {
                    long from = devs.empty() ? 0 : devs.back().k + 1;
                    for (long k = (long)chosen.size() - 1; k >= from; k--)
                        for (int alt : enabledAt[k])
                            if (alt != chosen[k]) {
                                auto d2 = devs;
                                d2.push_back({k, alt});
                                stack.push_back(d2);
                            }
                }
            }
        } else {
            std::vector<int> sched;
            for (auto& x : split(schedStr, ','))
                if (!x.empty()) sched.push_back(std::stoi(x));
            execCoop(job++,
                    [&](long k, const std::vector<int>& en, int, CoopBE&) {
                        if (k >= (long)sched.size()) return -1;
                        int t = sched[k] - 1;
                        return std::find(en.begin(), en.end(), t) != en.end() ? t : en[0];
                    },
                    schedStr);
        }
    }
};

template <unsigned D>
static void runT(long& job, bool hints, bool ordered, const std::string& progStr, const std::string& schedStr) {
    TrieJob<D> j;
    j.hints = hints;
    j.ordered = ordered;
    for (auto& p : split(progStr, ';')) {
        std::vector<Tup<D>> v;
        for (auto& t : split(p, ','))
            if (!t.empty() && t != "-") v.push_back(parseTup<D>(t));
        j.progs.push_back(v);
    }
    j.n = (int)j.progs.size();
    j.run(job, schedStr);
}

int main() {
    souffle::verif::yieldHandler().store(&yieldHandler);
    std::string line;
    long job = 0;
    while (std::getline(std::cin, line)) {
        if (line.empty()) {
            gLine++;
            continue;
        }
        auto f = split(line, ' ');
        if (f[0] == "A") {
            runA(job++, f[1], f.size() > 2 ? f[2] : "");
        } else if (f[0] == "T") {
            unsigned d = (unsigned)std::stoul(f[1]);
            bool h = f[2][0] == 'h';
            bool ob = f[2].find('b') != std::string::npos;
            std::string sched = f.size() > 4 ? f[4] : "";
            switch (d) {
                case 1: runT<1>(job, h, ob, f[3], sched); break;
                case 2: runT<2>(job, h, ob, f[3], sched); break;
                case 3: runT<3>(job, h, ob, f[3], sched); break;
                case 4: runT<4>(job, h, ob, f[3], sched); break;
                default: std::printf("J %ld %ld\nERR bad dimension\nE\n", job++, gLine);
            }
        }
        std::fflush(stdout);
        gLine++;
    }
    return 0;
}
