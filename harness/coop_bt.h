#pragma once
// Cooperative scheduler with the interface of coop.h (Coop), but the baton is handed over through one atomic word that
// the waiting side polls for a moment before it sleeps on it (futex); the B-tree enumeration takes millions of steps.
// Exactly one thread (or the controller, turn == -1) runs at a time; all shared data is published by the
// release-store / acquire-load of `turn`.
#include <atomic>
#include <climits>
#include <linux/futex.h>
#include <sys/syscall.h>
#include <unistd.h>
#include <chrono>
#include <functional>
#include <string>
#include <thread>
#include <vector>
struct CoopBt {
    std::atomic<int> turn{-1};
    std::vector<char> done;
    std::vector<std::string> lastPt;
    std::vector<long> steps;
    static thread_local int me;
    explicit CoopBt(int n) : done(n, 0), lastPt(n, "start"), steps(n, 0) {}
    // poll briefly (the hand-over normally takes < 1 us), then sleep in the kernel on the word itself
    void waitTurn(int who) {
        int spins = 0;
        int v;
        while ((v = turn.load(std::memory_order_acquire)) != who) {
            if (++spins < 300) {
#if defined(__x86_64__)
                __builtin_ia32_pause();
#endif
            } else {
                syscall(SYS_futex, reinterpret_cast<int*>(&turn), FUTEX_WAIT_PRIVATE, v, nullptr, nullptr, 0);
            }
        }
    }
    void pass(int to) {
        turn.store(to, std::memory_order_release);
        syscall(SYS_futex, reinterpret_cast<int*>(&turn), FUTEX_WAKE_PRIVATE, INT_MAX, nullptr, nullptr, 0);
    }
    void yield(const char* pt) {
        if (me < 0) return;
        int id = me;
        lastPt[id] = pt;
        pass(-1);
        waitTurn(id);
    }
    void threadBody(int id, const std::function<void()>& f) {
        me = id;
        waitTurn(id);
        f();
        done[id] = 1;
        lastPt[id] = "done";
        me = -1;
        pass(-1);
    }
    // run thread t until its next yield; false if already finished
    bool step(int t) {
        if (done[t]) return false;
        steps[t]++;
        pass(t);
        waitTurn(-1);
        return true;
    }
};
thread_local int CoopBt::me = -1;

// Persistent worker threads (creating a thread costs ~3 ms here): run(n, body) executes body(0..n-1) on workers and
// returns immediately; wait() blocks until all of them have returned.
struct WorkerPool {
    std::vector<std::thread> workers;
    std::atomic<long> gen{0};  // (generation << 8) | number of active workers: read once per generation by a worker
    std::atomic<int> finished{0};
    int active = 0;
    long counter = 0;
    std::function<void(int)> body;
    void loop(int id) {
        long seen = 0;
        while (true) {
            int spins = 0;
            long g;
            while ((g = gen.load(std::memory_order_acquire)) == seen) {
                if (++spins > 20000)
                    std::this_thread::sleep_for(std::chrono::microseconds(200));
                else
                    std::this_thread::yield();
            }
            seen = g;
            if (id < (int)(g & 255)) {
                body(id);
                finished.fetch_add(1, std::memory_order_release);
            }
        }
    }
    void run(int n, std::function<void(int)> b) {
        while ((int)workers.size() < n) {
            int id = (int)workers.size();
            workers.emplace_back([this, id] { loop(id); });
            workers.back().detach();
        }
        body = std::move(b);  // only workers active in the previous generation read `body`, and they have all finished
        active = n;
        finished.store(0, std::memory_order_relaxed);
        gen.store((++counter << 8) | n, std::memory_order_release);
    }
    void wait() {
        while (finished.load(std::memory_order_acquire) < active) std::this_thread::yield();
    }
};
