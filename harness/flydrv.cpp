// C31 driver for souffle's interning containers.
//
//  flydrv coop            replays schedules on the real ConcurrentFlyweight<MutexConcurrentLanes, int, VHash> (and its
//                         ConcurrentInsertOnlyHashMap) with explicit lane ids under the cooperative scheduler.
//    stdin, one job per line:
//        <lanes> <capacity> <reserveFirst> <buckets> <maxSize> <hashMul> <lane of thread 1,2,..> <progs> <schedule> [it]
//      buckets > 0: BucketCount / MaxSizeBeforeGrow of the map are set to <buckets> / <maxSize> before the first call (the
//      constructor never makes fewer than 13 buckets; growth of the map would otherwise need > 13 values)
//      progs "1,2;2;f"  per thread the calls: a number v = findOrInsert(lane, v), f = fetch(lane, last returned index)
//      schedule "1,2,2,1" thread per step (1-based), or R<seed>:<steps> (seeded random choice among the enabled threads)
//      it: a long-lived iterator is advanced <it> elements at every quiescent point (iteration across growth)
//    stdout per job: "J n"; "S k t nextSlot slotCount slots hslots bucketCount maxSize size buckets locks points ips rets"
//      after every step; "V <event>" lines (API events in real-time order); "DEADLOCK"/"LIVELOCK"/"ERR .."; "E".
//    At every quiescent point (all threads between calls) the controller iterates the flyweight (events ibegin/iend)
//    and fetches every index returned so far (events fetch).
//
//  flydrv stress <seed> <jobs> <opsPerThread>
//                         real OpenMP threads on SymbolTableImpl and SpecializedRecordTable<0,1,2,3> (plus the generic map for
//                         arity 4), 2-8 lanes, threads sharing lanes, growth-triggering sizes, seeded perturbation at the
//                         SOUFFLE_VERIF scheduling points.  Every call is logged with a ticket (atomic counter) at invocation
//                         and at return; the merged log is printed in ticket order: "J .." / "V <event>" / "E".
#include "coop_fly.h"
#include "souffle/datastructure/ConcurrentFlyweight.h"
#include "souffle/datastructure/RecordTableImpl.h"
#include "souffle/datastructure/SymbolTableImpl.h"
#include "souffle/utility/ParallelUtil.h"
#include <omp.h>
#include <algorithm>
#include <atomic>
#include <cstdio>
#include <cstring>
#include <iostream>
#include <sstream>
using namespace souffle;

struct VHash {
    std::size_t mul = 1;
    std::size_t operator()(int v) const {
        return static_cast<std::size_t>(v) * mul;
    }
};
using Fly = ConcurrentFlyweight<MutexConcurrentLanes, int, VHash>;

static CoopFly* g = nullptr;
static const MutexConcurrentLanes* gF = nullptr;  // the flyweight's lanes
static const MutexConcurrentLanes* gM = nullptr;  // the hash map's lanes

static char laneClass(const void* obj) {
    for (int k = 0; k < 2; k++) {
        const MutexConcurrentLanes* L = k == 0 ? gF : gM;
        if (L == nullptr) continue;
        if (obj == L || obj == &L->BeforeLockAll) return k == 0 ? 'F' : 'M';
        for (std::size_t i = 0; i < L->Size; i++)
            if (obj == &L->Lanes[i].Access) return k == 0 ? 'F' : 'M';
    }
    return '?';
}
static void coopHandler(const char* pt, const void* obj) {
    if (g == nullptr || CoopFly::me < 0) return;
    std::string name = pt;
    std::mutex* aw = nullptr;
    if (name.rfind("lanes.", 0) == 0) {
        if (name == "lanes.guard" || name == "lanes.lock" || name == "lanes.bla.lock" || name == "lanes.lockall")
            aw = const_cast<std::mutex*>(static_cast<const std::mutex*>(obj));
        name = std::string(1, laneClass(obj)) + ":" + name;
    }
    g->yield(name, aw);
}
static std::vector<std::string> split(const std::string& s, char c) {
    std::vector<std::string> r;
    std::stringstream ss(s);
    std::string x;
    while (std::getline(ss, x, c)) r.push_back(x);
    return r;
}
static bool isLocked(std::mutex& m) {
    if (m.try_lock()) {
        m.unlock();
        return false;
    }
    return true;
}

static int coopMain() {
    souffle::verif::yieldHandler().store(&coopHandler);
    std::string line;
    long job = 0;
    while (std::getline(std::cin, line)) {
        if (line.empty()) continue;
        auto f = split(line, ' ');
        if (f.size() < 9) {
            std::printf("J %ld\nERR malformed job\nE\n", job++);
            continue;
        }
        const int nl = std::stoi(f[0]), cap = std::stoi(f[1]), reserve = std::stoi(f[2]), nb = std::stoi(f[3]),
                  ms = std::stoi(f[4]), mul = std::stoi(f[5]);
        std::vector<int> laneOf;
        for (auto& x : split(f[6], ',')) laneOf.push_back(std::stoi(x));
        std::vector<std::string> progs = split(f[7], ';');
        const int n = (int)laneOf.size();
        progs.resize(n);
        const std::string schedStr = f[8];
        const int itStep = f.size() > 9 ? std::stoi(f[9]) : 0;

        VHash h;
        h.mul = (std::size_t)mul;
        Fly fw((std::size_t)nl, (std::size_t)cap, reserve != 0, h);
        using Map = decltype(fw.Mapping);
        if (nb > 0) {
            fw.Mapping.BucketCount = (std::size_t)nb;
            fw.Mapping.Buckets = std::make_unique<std::atomic<Map::BucketList*>[]>((std::size_t)nb);
            fw.Mapping.MaxSizeBeforeGrow = (std::size_t)ms;
        }
        gF = &fw.Lanes;
        gM = &fw.Mapping.Lanes;
        CoopFly coop(n);
        g = &coop;
        std::vector<std::vector<std::pair<long, int>>> rets(n);
        std::vector<int> ip(n, 1);
        std::vector<std::string> events;
        std::vector<long> returned;  // indices handed out so far, in order of return
        std::vector<std::thread> th;
        for (int t = 0; t < n; t++)
            th.emplace_back([&, t] {
                coop.threadBody(t, [&, t] {
                    for (auto& op : split(progs[t], ',')) {
                        if (op == "-" || op.empty()) continue;
                        coop.yield("op");  // call boundary == spec pc "next"
                        const std::size_t lane = (std::size_t)laneOf[t];
                        if (op == "f") {
                            if (!returned.empty()) {
                                const long idx = returned.back();
                                const int v = fw.fetch(lane, (std::size_t)idx);
                                events.push_back("fetch " + std::to_string(t + 1) + " 0 " + std::to_string(idx) + " k:" +
                                                 std::to_string(v));
                            }
                        } else {
                            const int v = std::stoi(op);
                            events.push_back("call " + std::to_string(t + 1) + " 0 k:" + std::to_string(v));
                            auto r = fw.findOrInsert(lane, v);
                            // the return is atomic with the call's last step under the cooperative scheduler
                            events.push_back("ret " + std::to_string(t + 1) + " 0 k:" + std::to_string(v) + " " +
                                             std::to_string((long)r.first) + " " + (r.second ? "T" : "F"));
                            rets[t].push_back({(long)r.first, r.second ? 1 : 0});
                            returned.push_back((long)r.first);
                        }
                        ip[t]++;
                    }
                    coop.yield("op");
                });
            });
        auto dump = [&](int t, int k) {
            std::printf("S %d %d %ld %ld ", k, t + 1, (long)fw.NextSlot.load(), (long)fw.SlotCount.load());
            const std::size_t sc = fw.SlotCount.load();
            if (sc == 0) std::printf("_");
            for (std::size_t i = 0; i < sc; i++)
                std::printf("%s%ld", i ? "," : "", fw.Slots[i] ? (long)fw.Slots[i]->second : -1L);
            std::printf(" ");
            for (int l = 0; l < nl; l++)
                std::printf("%s%ld", l ? "," : "", fw.Handles[l].NextSlot == Fly::NONE ? -1L : (long)fw.Handles[l].NextSlot);
            std::printf(" %ld %ld %ld ", (long)fw.Mapping.BucketCount, (long)fw.Mapping.MaxSizeBeforeGrow,
                    (long)fw.Mapping.Size.load());
            for (std::size_t b = 0; b < fw.Mapping.BucketCount; b++) {
                if (b) std::printf(";");
                auto* L = fw.Mapping.Buckets[b].load();
                if (!L) std::printf("_");
                int guard = 0;
                for (; L && guard < 1000; L = L->Next, guard++)
                    std::printf("%s%d:%ld", guard ? ">" : "", L->Value.first, (long)L->Value.second);
            }
            std::printf(" ");
            for (int l = 0; l < nl; l++) std::printf("%d", (int)isLocked(fw.Lanes.Lanes[l].Access));
            std::printf("|%d|", (int)isLocked(fw.Lanes.BeforeLockAll));
            for (int l = 0; l < nl; l++) std::printf("%d", (int)isLocked(fw.Mapping.Lanes.Lanes[l].Access));
            std::printf("|%d ", (int)isLocked(fw.Mapping.Lanes.BeforeLockAll));
            for (int i = 0; i < n; i++) std::printf("%s%s", i ? "," : "", coop.lastPt[i].c_str());
            std::printf(" ");
            for (int i = 0; i < n; i++) std::printf("%s%d", i ? "," : "", ip[i]);
            std::printf(" ");
            for (int i = 0; i < n; i++) {
                if (i) std::printf(",");
                if (rets[i].empty()) std::printf("_");
                for (std::size_t j = 0; j < rets[i].size(); j++)
                    std::printf("%s%ld:%d", j ? "/" : "", rets[i][j].first, rets[i][j].second);
            }
            std::printf("\n");
        };
        // observations of the controller at quiescent points
        std::size_t observedAt = (std::size_t)-1;
        std::unique_ptr<Fly::Iterator> longIt;
        bool longDone = false;
        std::string longList;
        auto quiescent = [&] {
            for (int i = 0; i < n; i++)
                if (coop.lastPt[i] != "op" && coop.lastPt[i] != "done") return false;
            return true;
        };
        auto item = [](int key, long idx) { return " k:" + std::to_string(key) + "|0|" + std::to_string(idx); };
        auto observe = [&] {
            if (!quiescent()) return;
            if (itStep > 0 && !longDone && (longIt || !returned.empty())) {
                if (!longIt) {
                    // a long-lived iterator: created now, advanced itStep elements at every later quiescent point
                    events.push_back("ibegin 1");
                    longIt = std::make_unique<Fly::Iterator>(fw.begin(0));
                } else {
                    for (int k = 0; k < itStep && *longIt != fw.end(); k++) {
                        longList += item((*longIt)->first, (long)(*longIt)->second);
                        ++(*longIt);
                    }
                    bool allDone = true;
                    for (int i = 0; i < n; i++) allDone &= coop.lastPt[i] == "done";
                    if (allDone)  // finish the iteration once nothing can be inserted any more
                        for (; *longIt != fw.end(); ++(*longIt)) longList += item((*longIt)->first, (long)(*longIt)->second);
                    if (!(*longIt != fw.end())) {
                        events.push_back("iend 1 -" + longList);
                        longDone = true;
                    }
                }
            }
            if (observedAt == returned.size()) return;
            observedAt = returned.size();
            std::string it = "iend 0 -";
            events.push_back("ibegin 0");
            long guard = 0;
            for (auto i = fw.begin(0); i != fw.end() && guard < 100000; ++i, ++guard) it += item(i->first, (long)i->second);
            events.push_back(it);
            std::vector<long> u = returned;
            std::sort(u.begin(), u.end());
            u.erase(std::unique(u.begin(), u.end()), u.end());
            for (long idx : u)
                events.push_back("fetch 0 0 " + std::to_string(idx) + " k:" + std::to_string(fw.fetch(0, (std::size_t)idx)));
        };

        std::printf("J %ld\n", job++);
        for (int t = 0; t < n; t++) coop.step(t);  // bring every thread to its first call boundary
        dump(-1, 0);
        observe();
        int k = 0;
        if (!schedStr.empty() && schedStr[0] == 'R') {
            unsigned long long st = std::stoull(schedStr.substr(1)) * 6364136223846793005ull + 1442695040888963407ull;
            const int steps = std::stoi(schedStr.substr(schedStr.find(':') + 1));
            for (int i = 0; i < steps; i++) {
                std::vector<int> en;
                for (int t = 0; t < n; t++)
                    if (coop.enabled(t)) en.push_back(t);
                if (en.empty()) break;
                st = st * 6364136223846793005ull + 1442695040888963407ull;
                const int t = en[(st >> 33) % en.size()];
                coop.step(t);
                dump(t, ++k);
                observe();
            }
        } else if (schedStr != "-") {
            for (auto& x : split(schedStr, ',')) {
                if (x.empty()) continue;
                const int t = std::stoi(x) - 1;
                k++;
                if (t < 0 || t >= n || coop.done[t]) {
                    std::printf("ERR thread %d already finished at step %d\n", t + 1, k);
                    break;
                }
                if (coop.blocked(t)) {
                    std::printf("ERR thread %d is blocked at %s at step %d\n", t + 1, coop.lastPt[t].c_str(), k);
                    break;
                }
                coop.step(t);
                dump(t, k);
                observe();
            }
        }
        // fair drain: round-robin over the enabled threads
        long guard = 0;
        bool dead = false;
        while (true) {
            bool alive = false, progressed = false;
            for (int t = 0; t < n; t++) {
                if (coop.done[t]) continue;
                alive = true;
                if (coop.blocked(t)) continue;
                coop.step(t);
                progressed = true;
                observe();
            }
            if (!alive) break;
            if (!progressed) {
                dead = true;
                break;
            }
            if (++guard > 100000) break;
        }
        if (dead) {
            std::printf("DEADLOCK");
            for (int t = 0; t < n; t++) std::printf(" %s", coop.lastPt[t].c_str());
            std::printf("\n");
        } else if (guard > 100000)
            std::printf("LIVELOCK\n");
        dump(-1, -1);
        // every call event gets the position of its return in this job's event list (1 = the reset event)
        std::printf("V reset %d\n", reserve != 0);
        for (std::size_t i = 0; i < events.size(); i++) {
            if (events[i].rfind("call ", 0) == 0) {
                const std::string who = events[i].substr(5, events[i].find(' ', 5) - 5);
                long r = 0;
                for (std::size_t j = i + 1; j < events.size() && r == 0; j++)
                    if (events[j].rfind("ret " + who + " ", 0) == 0) r = (long)j + 2;
                std::printf("V %s %ld\n", events[i].c_str(), r);
            } else
                std::printf("V %s\n", events[i].c_str());
        }
        std::printf("E\n");
        std::fflush(stdout);
        if (dead) std::_Exit(3);  // the blocked threads cannot be joined
        longIt.reset();
        g = nullptr;
        for (auto& x : th) x.join();
        gF = gM = nullptr;
    }
    return 0;
}

// ------------------------------------------------------------------------------------------------------------------
// real-thread stress
// ------------------------------------------------------------------------------------------------------------------
struct Rng {
    unsigned long long s;
    explicit Rng(unsigned long long seed) : s(seed * 0x9E3779B97F4A7C15ull + 0x1234567ull) {
        next();
        next();
    }
    unsigned long long next() {
        s ^= s >> 12;
        s ^= s << 25;
        s ^= s >> 27;
        return s * 0x2545F4914F6CDD1Dull;
    }
    unsigned below(unsigned n) {
        return (unsigned)((next() >> 33) % n);
    }
};
static std::atomic<unsigned> gPermille{0};
static void perturbHandler(const char*, const void*) {
    static thread_local Rng r(std::hash<std::thread::id>()(std::this_thread::get_id()) + gPermille.load());
    const unsigned pm = gPermille.load(std::memory_order_relaxed);
    if (pm == 0) return;
    const unsigned long long x = r.next();
    if ((x >> 20) % 1000 < pm) {
        if ((x >> 40) % 4 == 0)
            std::this_thread::sleep_for(std::chrono::microseconds(1 + (x >> 50) % 50));
        else
            std::this_thread::yield();
    }
}
struct Ev {
    long tk;
    int kind;  // 0 call 1 ret 2 fetch
    int t;
    int m;
    std::string v;
    long i;
    char b;
    long op;  // call/ret pairing
};
static std::atomic<long> gTicket{0};

static std::string recStr(const RamDomain* d, std::size_t arity) {
    std::string s = "r" + std::to_string(arity) + ":";
    for (std::size_t k = 0; k < arity; k++) s += (k ? "," : "") + std::to_string(d[k]);
    return s;
}

static int stressMain(unsigned long long seed, int jobs, int opsPerThread) {
    souffle::verif::yieldHandler().store(&perturbHandler);
    Rng top(seed);
    for (int job = 0; job < jobs; job++) {
        const bool sym = job % 2 == 0;
        const int lanes = 2 + (int)top.below(7);                       // 2..8
        const int threads = std::max(2, std::min(8, lanes + (int)top.below(4) - 1));  // threads share lanes or not
        const int viaSetNumLanes = (int)top.below(2);
        const int initial = (int)top.below(3);  // symbol tables: number of initial symbols (capacity = that number: growth at once)
        const int pool = std::vector<int>{4, 12, 40, 150, 600}[top.below(5)];
        const int mode = (int)top.below(3);  // sym: 0 findOrInsert, 1 encode, 2 mixed
        const int phases = 1 + (int)top.below(3);
        gPermille.store(std::vector<unsigned>{0, 20, 200}[top.below(3)]);
        const unsigned long long jseed = top.next();
        std::printf("J %d %s lanes=%d threads=%d setNumLanes=%d initial=%d pool=%d mode=%d phases=%d perturb=%u seed=%llu\n",
                job, sym ? "sym" : "rec", lanes, threads, viaSetNumLanes, initial, pool, mode, phases, gPermille.load(), jseed);
        std::printf("V reset %d\n", sym ? 0 : 1);

        std::unique_ptr<SymbolTableImpl> st;
        std::unique_ptr<SpecializedRecordTable<0, 1, 2, 3>> rt;
        std::vector<std::string> initSyms;
        if (sym) {
            if (initial > 0) {
                // capacity = number of initial symbols: the next symbol makes the table grow.  With setNumLanes this is what
                // synthesised programs do: symTable({constants...}) and then setNumLanes(threads)
                std::initializer_list<std::string> one = {"init0"}, two = {"init0", "init1"};
                initSyms = initial == 1 ? std::vector<std::string>(one) : std::vector<std::string>(two);
                if (viaSetNumLanes) {
                    st.reset(initial == 1 ? new SymbolTableImpl(one) : new SymbolTableImpl(two));
                    st->setNumLanes((std::size_t)lanes);
                } else
                    st.reset(initial == 1 ? new SymbolTableImpl((std::size_t)lanes, one) : new SymbolTableImpl((std::size_t)lanes, two));
            } else if (viaSetNumLanes) {
                st.reset(new SymbolTableImpl());  // as the interpreter engine does
                st->setNumLanes((std::size_t)lanes);
            } else
                st.reset(new SymbolTableImpl((std::size_t)lanes));
        } else {
            if (viaSetNumLanes) {
                rt.reset(new SpecializedRecordTable<0, 1, 2, 3>());
                rt->setNumLanes((std::size_t)lanes);
            } else
                rt.reset(new SpecializedRecordTable<0, 1, 2, 3>((std::size_t)lanes));
        }
        std::vector<std::vector<Ev>> log(threads);
        std::vector<std::string> quiet;  // events of the master between the phases
        std::atomic<long> opCounter{0};
        // the symbols of the constructor count as interned by calls that returned before everything else
        for (auto& s : initSyms) {
            auto r = st->findOrInsert(s);
            long o = opCounter++;
            log[0].push_back({gTicket++, 0, 0, 0, "s:" + s, 0, '?', o});
            log[0].push_back({gTicket++, 1, 0, 0, "s:" + s, (long)r.first, '?', o});
        }
        static const int PUB = 64;
        // references published to other threads after the call returned: arity * 2^40 + index
        std::vector<std::atomic<long>> pub(PUB);
        for (int i = 0; i < PUB; i++) pub[i].store(-1);
        std::vector<std::pair<long, std::string>> masterEvents;  // (ticket, text)
        for (int phase = 0; phase < phases; phase++) {
#pragma omp parallel num_threads(threads)
            {
                const int t = omp_get_thread_num();
                Rng r(jseed + 1000003ull * (unsigned)phase + 7919ull * (unsigned)t);
                std::vector<std::pair<long, int>> mine;  // (index, arity) returned to this thread
                auto& L = log[t];
                for (int k = 0; k < opsPerThread; k++) {
                    // skewed value choice: duplicates across threads are frequent
                    unsigned vi = r.below(3) == 0 ? r.below((unsigned)pool) : r.below(1 + (unsigned)pool / 8);
                    if (sym) {
                        const unsigned what = r.below(10);
                        if (what < 7 || mine.empty()) {
                            std::string s = "v" + std::to_string(vi) + std::string(vi % 5, 'x');
                            const bool fi = mode == 0 || (mode == 2 && r.below(2) == 0);
                            const long o = opCounter++;
                            L.push_back({gTicket++, 0, t + 1, 0, "s:" + s, 0, '?', o});
                            long idx;
                            char b = '?';
                            if (fi) {
                                auto res = st->findOrInsert(s);
                                idx = res.first;
                                b = res.second ? 'T' : 'F';
                            } else
                                idx = st->encode(s);
                            L.push_back({gTicket++, 1, t + 1, 0, "s:" + s, idx, b, o});
                            mine.push_back({idx, 0});
                            pub[r.below(PUB)].store(idx, std::memory_order_release);
                        } else {
                            long idx = mine[r.below((unsigned)mine.size())].first;
                            if (what == 9) {
                                long p = pub[r.below(PUB)].load(std::memory_order_acquire);
                                if (p >= 0) idx = p;
                            }
                            const std::string& s = st->decode((RamDomain)idx);
                            L.push_back({gTicket++, 2, t + 1, 0, "s:" + s, idx, '?', -1});
                        }
                    } else {
                        const unsigned what = r.below(10);
                        if (what < 7 || mine.empty()) {
                            const int arity = (int)std::vector<int>{0, 1, 1, 2, 2, 2, 3, 3, 4}[r.below(9)];
                            RamDomain tuple[4] = {(RamDomain)vi, (RamDomain)(vi % 3) - 1, (RamDomain)(vi % 2), (RamDomain)7};
                            if (arity == 1 && vi % 2) tuple[0] = -(RamDomain)vi;
                            const std::string s = recStr(tuple, (std::size_t)arity);
                            const long o = opCounter++;
                            L.push_back({gTicket++, 0, t + 1, arity, s, 0, '?', o});
                            const long idx = rt->pack(tuple, (std::size_t)arity);
                            L.push_back({gTicket++, 1, t + 1, arity, s, idx, '?', o});
                            mine.push_back({idx, arity});
                            pub[r.below(PUB)].store(((long)arity << 40) + idx, std::memory_order_release);
                        } else {
                            auto pr = mine[r.below((unsigned)mine.size())];
                            if (what == 9) {
                                const long p = pub[r.below(PUB)].load(std::memory_order_acquire);
                                if (p >= 0) pr = {p & ((1L << 40) - 1), (int)(p >> 40)};
                            }
                            const RamDomain* d = rt->unpack((RamDomain)pr.first, (std::size_t)pr.second);
                            const std::string s = pr.second == 0 ? std::string("r0:") : recStr(d, (std::size_t)pr.second);
                            L.push_back({gTicket++, 2, t + 1, pr.second, s, pr.first, '?', -1});
                        }
                    }
                }
            }
            // quiescent: the master iterates
            std::string it;
            long cnt = 0;
            masterEvents.push_back({gTicket++, "ibegin 0"});
            if (sym) {
                for (auto i = st->begin(); i != st->end() && cnt < 10000000; ++i, ++cnt)
                    it += " s:" + i->first + "|0|" + std::to_string((long)i->second);
                masterEvents.push_back({gTicket++, "iend 0 -" + it});
            } else {
                rt->enumerate([&](const RamDomain* d, std::size_t arity, RamDomain key) {
                    it += " " + recStr(d, arity) + "|" + std::to_string(arity) + "|" + std::to_string((long)key);
                });
                masterEvents.push_back({gTicket++, "iend 0 0" + it});  // arity 0 (a constant, not stored) is not enumerated
            }
        }
        // merge by ticket
        std::vector<const Ev*> all;
        for (auto& L : log)
            for (auto& e : L) all.push_back(&e);
        std::sort(all.begin(), all.end(), [](const Ev* a, const Ev* b) { return a->tk < b->tk; });
        // position of every event in the printed trace (1 = the reset event), to give each call the position of its return
        std::vector<std::pair<long, int>> order;  // (ticket, source: index into all or -(1+index into masterEvents))
        for (std::size_t i = 0; i < all.size(); i++) order.push_back({all[i]->tk, (int)i});
        for (std::size_t i = 0; i < masterEvents.size(); i++) order.push_back({masterEvents[i].first, -(int)(i + 1)});
        std::sort(order.begin(), order.end());
        std::vector<long> retPos((std::size_t)opCounter.load(), 0);
        for (std::size_t p = 0; p < order.size(); p++)
            if (order[p].second >= 0 && all[order[p].second]->kind == 1) retPos[all[order[p].second]->op] = (long)p + 2;
        for (auto& o : order) {
            if (o.second < 0) {
                std::printf("V %s\n", masterEvents[-o.second - 1].second.c_str());
                continue;
            }
            const Ev& e = *all[o.second];
            if (e.kind == 0)
                std::printf("V call %d %d %s %ld\n", e.t, e.m, e.v.c_str(), retPos[e.op]);
            else if (e.kind == 1)
                std::printf("V ret %d %d %s %ld %c\n", e.t, e.m, e.v.c_str(), e.i, e.b);
            else
                std::printf("V fetch %d %d %ld %s\n", e.t, e.m, e.i, e.v.c_str());
        }
        std::printf("E\n");
        std::fflush(stdout);
    }
    return 0;
}

int main(int argc, char** argv) {
    if (argc >= 2 && std::string(argv[1]) == "coop") return coopMain();
    if (argc >= 5 && std::string(argv[1]) == "stress")
        return stressMain(std::stoull(argv[2]), std::stoi(argv[3]), std::stoi(argv[4]));
    std::fprintf(stderr, "usage: flydrv coop | flydrv stress <seed> <jobs> <opsPerThread>\n");
    return 2;
}
