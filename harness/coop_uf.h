#pragma once
// Cooperative scheduler with the same surface as coop.h (yield / step / done / lastPt), but the "threads" are
// user-level contexts (ucontext) inside one OS thread: a scheduler step costs < 1 us instead of two kernel
// context switches, so the driver can enumerate hundreds of thousands of interleavings.  Sound for code whose
// behaviour does not depend on the identity of the OS thread (DisjointSet: atomics only, no thread_local, no locks
// on the paths exercised).  Exactly one context (or the controller) runs at a time, as with coop.h.
#include <functional>
#include <memory>
#include <string>
#include <ucontext.h>
#include <vector>
struct CoopUF {
    static constexpr std::size_t STACK = 256 * 1024;
    std::vector<ucontext_t> ctx;
    ucontext_t controller;
    std::vector<char> done, started;
    std::vector<std::string> lastPt;
    std::vector<long> steps;
    std::vector<std::function<void()>> body;
    std::vector<char*> stack;
    // stacks are pooled and reused across scheduler instances (an execution costs no allocation)
    static std::vector<std::unique_ptr<char[]>>& pool() {
        static std::vector<std::unique_ptr<char[]>> p;
        return p;
    }
    int cur = -1;  // -1: controller
    static CoopUF*& active() {
        static CoopUF* a = nullptr;
        return a;
    }
    explicit CoopUF(int n) : ctx(n), done(n, 0), started(n, 0), lastPt(n, "start"), steps(n, 0), body(n), stack(n, nullptr) {}
    void spawn(int id, std::function<void()> f) {
        body[id] = std::move(f);
        while (pool().size() <= (std::size_t)id) pool().emplace_back(new char[STACK]);
        stack[id] = pool()[id].get();
        getcontext(&ctx[id]);
        ctx[id].uc_stack.ss_sp = stack[id];
        ctx[id].uc_stack.ss_size = STACK;
        ctx[id].uc_link = &controller;
        makecontext(&ctx[id], (void (*)())&CoopUF::entry, 1, id);
    }
    static void entry(int id) {
        CoopUF* c = active();
        c->body[id]();
        c->done[id] = 1;
        c->lastPt[id] = "done";
        c->cur = -1;  // returning resumes uc_link = controller
    }
    void yield(const char* pt) {
        if (cur < 0) return;
        int me = cur;
        lastPt[me] = pt;
        cur = -1;
        swapcontext(&ctx[me], &controller);
    }
    // run context t until its next yield; false if already finished
    bool step(int t) {
        if (done[t]) return false;
        steps[t]++;
        cur = t;
        active() = this;
        swapcontext(&controller, &ctx[t]);
        return true;
    }
};
