#pragma once
// Cooperative scheduler for flydrv (copy of coop.h plus: the mutex a thread waits for at a SOUFFLE_VERIF_AWAIT
// point is recorded, so that the controller can tell blocked threads from runnable ones: fair drain, deadlock
// detection, random schedules that only pick enabled threads).
#include <condition_variable>
#include <functional>
#include <mutex>
#include <string>
#include <thread>
#include <vector>
struct CoopFly {
    std::mutex m;
    std::condition_variable cv;
    int turn = -1;  // -1: controller
    std::vector<char> done;
    std::vector<std::string> lastPt;
    std::vector<std::mutex*> waitFor;  // mutex awaited at the current point (nullptr: not an await point)
    std::vector<long> steps;
    static thread_local int me;
    explicit CoopFly(int n) : done(n, 0), lastPt(n, "start"), waitFor(n, nullptr), steps(n, 0) {}
    void yield(const std::string& pt, std::mutex* awaited = nullptr) {
        if (me < 0) return;
        std::unique_lock<std::mutex> l(m);
        lastPt[me] = pt;
        waitFor[me] = awaited;
        turn = -1;
        cv.notify_all();
        cv.wait(l, [&] { return turn == me; });
    }
    void threadBody(int id, const std::function<void()>& f) {
        me = id;
        {
            std::unique_lock<std::mutex> l(m);
            cv.wait(l, [&] { return turn == me; });
        }
        f();
        {
            std::unique_lock<std::mutex> l(m);
            done[me] = 1;
            lastPt[me] = "done";
            waitFor[me] = nullptr;
            turn = -1;
            cv.notify_all();
        }
    }
    // run thread t until its next yield; false if already finished
    bool step(int t) {
        std::unique_lock<std::mutex> l(m);
        if (done[t]) return false;
        steps[t]++;
        turn = t;
        cv.notify_all();
        cv.wait(l, [&] { return turn == -1; });
        return true;
    }
    // only the controller calls this, while every thread is parked
    bool blocked(int t) {
        if (done[t] || waitFor[t] == nullptr) return false;
        if (waitFor[t]->try_lock()) {
            waitFor[t]->unlock();
            return false;
        }
        return true;
    }
    bool enabled(int t) {
        return !done[t] && !blocked(t);
    }
};
thread_local int CoopFly::me = -1;
